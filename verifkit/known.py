"""Known findings: genuine defects recorded instead of repaired. Never written at run time."""
import json, os
from . import common


def load():
    if not os.path.exists(common.KNOWN_FINDINGS):
        return []
    with open(common.KNOWN_FINDINGS) as f:
        data = json.load(f)
    return data.get("findings", [])


def match(findings, pid, result, conf):
    """A Kani violation matches a *known* entry iff property, harness role, configuration and the
    failing oracle all match; 'fixed' entries never suppress anything."""
    if not result.failed:
        return None
    desc = result.failed[0].description
    for f in findings:
        if f.get("status") != "known" or f.get("property") != pid:
            continue
        k = f.get("key", {})
        if k.get("role") and k["role"] != result.job.role:
            continue
        if "debug_assertions" in k and k["debug_assertions"] != result.job.debug_assertions:
            continue
        if k.get("description_contains") and k["description_contains"] not in desc:
            continue
        # every unexpected failing check of the run must be covered by the entry
        if all(k.get("description_contains", "") in c.description for c in result.failed):
            return f
    return None


def match_e2(findings, pid, er):
    for f in findings:
        if f.get("status") != "known" or f.get("property") != pid:
            continue
        k = f.get("key", {})
        if k.get("obligation") and k["obligation"] == er.get("name"):
            return f
    return None
