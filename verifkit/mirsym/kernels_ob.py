"""Obligations on the loop-free integer kernels of the gecs crate, full width, symbolic
archetype id. Each function returns a list of smt.Obligation plus bookkeeping."""
import re
import z3
from .kernel import Kernel, Struct, Enum, Ref, nonzero, Unsupported
from .smt import Obligation

MAXCAP = 1 << 24


def _slotver(g):
    return Struct('SlotVersion', [nonzero(g)])


def _archver(g):
    return Struct('ArchetypeVersion', [nonzero(g)])


def _any(key, g):
    return Struct('EntityAny', [key, _slotver(g)])


def _dany(key, g):
    return Struct('EntityDirectAny', [key, _archver(g)])


class Ctx:
    def __init__(self, mir, wrapping=False):
        self.mir = mir
        self.ID = z3.BitVec('ARCHETYPE_ID', 8)
        self.consts = {'<A as traits::Archetype>::ARCHETYPE_ID': self.ID, '<A as Archetype>::ARCHETYPE_ID': self.ID}
        self.obs = []
        self.functions = set()
        self.modelled = set()
        self.wrapping = wrapping

    def kernel(self, **kw):
        return Kernel(self.mir, self.consts, **kw)

    def add(self, name, pc, claim, **meta):
        self.obs.append(Obligation(name, pc, claim, meta))

    def absorb(self, k, prefix):
        for pc, c, msg in k.obligations:
            self.add('%s: %s' % (prefix, msg), pc, c)
        self.functions |= k.interpreted
        self.modelled |= k.modelled

    def no_panic(self, k, prefix, allowed=None):
        """every recorded panic path must be infeasible, or satisfy `allowed(pc,msg) -> claim`"""
        for pc, msg in k.panics:
            claim = allowed(msg) if allowed else None
            self.add('%s: panic "%s" %s' % (prefix, msg[:60], 'only when allowed' if claim is not None else 'is unreachable'), pc, claim if claim is not None else z3.BoolVal(False))


def index_extraction(cx):
    """EntityAny::slot_index / EntityDirectAny::dense_index for every u32 key (C03)."""
    key = z3.BitVec('key', 32); g = z3.BitVec('gen', 32)
    for fname, sig, mk in (('::slot_index', '&EntityAny', _any), ('::dense_index', '&EntityDirectAny', _dany)):
        k = cx.kernel()
        outs = k.run(cx.mir.fn(fname, sig), [Ref([mk(key, g)])], [g != 0])
        assert outs, 'no returning path'
        for pc, v in outs:
            cx.add('%s: result < 2^24' % fname, pc, z3.ULT(v.fields[0], MAXCAP))
            cx.add('%s: result == key >> 8' % fname, pc, v.fields[0] == z3.LShR(key, 8))
        cx.absorb(k, fname)
        cx.no_panic(k, fname)


def trimmed_index(cx):
    """TrimmedIndex::new_u32 / new_usize: Some iff < 2^24, value preserved (C03/C12)."""
    x = z3.BitVec('x32', 32); y = z3.BitVec('x64', 64)
    for fname, arg, w in (('::new_u32', x, 32), ('::new_usize', y, 64)):
        k = cx.kernel()
        for pc, v in k.run(cx.mir.fn('TrimmedIndex' + fname) if False else cx.mir.fn(fname, 'TrimmedIndex'), [arg], []):
            small = z3.ULT(arg, MAXCAP)
            if v.variant == 'Some':
                cx.add('%s: Some only below 2^24' % fname, pc, small)
                val = v.fields[0].fields[0]
                cx.add('%s: value preserved' % fname, pc, val == (arg if w == 32 else z3.Extract(31, 0, arg)))
            else:
                cx.add('%s: None only at or above 2^24' % fname, pc, z3.Not(small))
        cx.absorb(k, fname)
        cx.no_panic(k, fname)


def packing(cx):
    """EntityAny::new / EntityDirectAny::new: low byte = id, key >> 8 = index, injective (C08, C14)."""
    for fname, sig, mkver in (('::new', 'u8, _3: SlotVersion) -> EntityAny', _slotver), ('::new', 'u8, _3: ArchetypeVersion) -> EntityDirectAny', _archver)):
        outs2 = []
        for tag in ('a', 'b'):
            idx = z3.BitVec('idx_' + tag, 32); g = z3.BitVec('gen_' + tag, 32); aid = z3.BitVec('id_' + tag, 8)
            k = cx.kernel()
            outs = k.run(cx.mir.fn(fname, sig), [Struct('TrimmedIndex', [idx]), aid, mkver(g)], [z3.ULT(idx, MAXCAP), g != 0])
            assert len(outs) >= 1
            for pc, v in outs:
                kk = v.fields[0]
                cx.add('%s(%s): low byte == id' % (fname, sig.split('-> ')[1]), pc, z3.Extract(7, 0, kk) == aid)
                cx.add('%s(%s): key >> 8 == index' % (fname, sig.split('-> ')[1]), pc, z3.LShR(kk, 8) == idx)
                outs2.append((pc, kk, v.fields[1].fields[0].fields[0], idx, g, aid))
            cx.absorb(k, fname)
            cx.no_panic(k, fname)
        (pa, ka, va, ia, ga, da), (pb, kb, vb, ib, gb, db) = outs2[0], outs2[-1]
        cx.add('%s(%s): injective in (index, id, generation)' % (fname, sig.split('-> ')[1]), pa + pb + [ka == kb, va == vb], z3.And(ia == ib, ga == gb, da == db))


def conversions(cx, debug_assertions=True):
    """TryFrom / from_any / from_any_unchecked / from_raw / raw / archetype_id for a symbolic ARCHETYPE_ID (C14)."""
    key = z3.BitVec('key', 32); g = z3.BitVec('gen', 32)
    match = z3.Extract(7, 0, key) == cx.ID
    for ty, mk, res in (('EntityAny', _any, 'Entity<A>'), ('EntityDirectAny', _dany, 'EntityDirect<A>')):
        h = mk(key, g)
        k = cx.kernel()
        for pc, r in k.run(cx.mir.fn('::try_from', '%s) -> Result<%s' % (ty, res)), [h], [g != 0]):
            if r.variant == 'Ok':
                cx.add('try_from<%s>: Ok only when the id matches' % ty, pc, match)
                inner = r.fields[0].fields[0]
                cx.add('try_from<%s>: payload unchanged' % ty, pc, z3.And(inner.fields[0] == key, inner.fields[1].fields[0].fields[0] == g))
            else:
                cx.add('try_from<%s>: Err only when the id differs' % ty, pc, z3.Not(match))
        cx.absorb(k, 'try_from<%s>' % ty); cx.no_panic(k, 'try_from<%s>' % ty)
        k = cx.kernel()
        outs = k.run(cx.mir.fn('::from_any', '%s) -> %s' % (ty, res)), [h], [g != 0])
        for pc, r in outs:
            cx.add('from_any<%s>: returns only when the id matches' % ty, pc, match)
            inner = r.fields[0]
            cx.add('from_any<%s>: payload unchanged' % ty, pc, z3.And(inner.fields[0] == key, inner.fields[1].fields[0].fields[0] == g))
        for pc, msg in k.panics:
            cx.add('from_any<%s>: panics only when the id differs' % ty, pc, z3.Not(match))
        cx.absorb(k, 'from_any<%s>' % ty)
        k = cx.kernel()
        outs = k.run(cx.mir.fn('::from_any_unchecked', '%s) -> %s' % (ty, res)), [h], [g != 0])
        for pc, r in outs:
            inner = r.fields[0]
            cx.add('from_any_unchecked<%s>: payload unchanged' % ty, pc, z3.And(inner.fields[0] == key, inner.fields[1].fields[0].fields[0] == g))
            if debug_assertions:
                cx.add('from_any_unchecked<%s>: with debug assertions returns only when the id matches' % ty, pc, match)
        for pc, msg in k.panics:
            cx.add('from_any_unchecked<%s>: panics only when the id differs (debug_assert)' % ty, pc, z3.Not(match))
        cx.absorb(k, 'from_any_unchecked<%s>' % ty)
        # archetype_id of the dynamic handle
        k = cx.kernel()
        for pc, a in k.run(cx.mir.fn('::archetype_id', '%s) -> u8' % ty), [h], []):
            cx.add('%s::archetype_id == low byte of key' % ty, pc, a == z3.Extract(7, 0, key))
        cx.absorb(k, '%s::archetype_id' % ty); cx.no_panic(k, '%s::archetype_id' % ty)
    # from_raw / raw
    k = cx.kernel()
    raw = Struct('tuple', [key, g])
    for pc, r in k.run(cx.mir.fn('::from_raw', '(u32, u32)) -> Result<EntityAny'), [raw], []):
        if r.variant == 'Ok':
            cx.add('from_raw: Ok only for a nonzero generation', pc, g != 0)
            h = r.fields[0]
            cx.add('from_raw: payload is the raw pair', pc, z3.And(h.fields[0] == key, h.fields[1].fields[0].fields[0] == g))
            k2 = cx.kernel()
            for pc2, rr in k2.run(cx.mir.fn('::raw', '&EntityAny) -> (u32, u32)'), [Ref([h])], pc):
                cx.add('raw(from_raw(p)) == p', pc2, z3.And(rr.fields[0] == key, rr.fields[1] == g))
            cx.absorb(k2, 'raw')
        else:
            cx.add('from_raw: Err only for a zero generation', pc, g == 0)
    cx.absorb(k, 'from_raw'); cx.no_panic(k, 'from_raw')


def hashing(cx):
    """Hash for EntityAny / EntityDirectAny feeds ONE u64 that is an injective function of (key, generation) (C14)."""
    for ty, mk in (('EntityAny', _any), ('EntityDirectAny', _dany)):
        fed = []
        for tag in ('a', 'b'):
            key = z3.BitVec('key_' + tag, 32); g = z3.BitVec('gen_' + tag, 32)
            rec = []
            def hook(args, rec=rec):
                rec.append(args[0].cell[0] if isinstance(args[0], Ref) else args[0])
                return Struct('tuple', [])
            k = cx.kernel(extern={r'<u64 as Hash>::hash::<': hook})
            it = cx.mir.find(lambda it: it.kind == 'fn' and it.name.endswith('::hash') and ('&%s,' % ty) in it.header, 'Hash for ' + ty)
            outs = k.run(it, [Ref([mk(key, g)]), Ref([Struct('Hasher', [])])], [g != 0])
            assert len(outs) == 1 and len(rec) == 1, 'hash feeds %d words on %d paths' % (len(rec), len(outs))
            fed.append((outs[0][0], rec[0], key, g))
            cx.absorb(k, 'Hash for ' + ty); cx.no_panic(k, 'Hash for ' + ty)
        (pa, wa, ka, ga), (pb, wb, kb, gb) = fed
        cx.add('Hash for %s: equal hash input iff equal (key, generation)' % ty, pa + pb, (wa == wb) == z3.And(ka == kb, ga == gb))


def version_next(cx):
    """SlotVersion::next / ArchetypeVersion::next: +1 below MAX; at MAX panic (default) or wrap to 1 (wrapping_version) (C08, C19)."""
    g = z3.BitVec('gen', 32)
    for ty, mk in (('SlotVersion', _slotver), ('ArchetypeVersion', _archver)):
        k = cx.kernel()
        outs = k.run(cx.mir.fn('::next', '&%s) -> %s' % (ty, ty)), [Ref([mk(g)])], [g != 0])
        for pc, v in outs:
            nv = v.fields[0].fields[0]
            if cx.wrapping:
                cx.add('%s::next (wrapping_version): g+1, or the start value 1 at u32::MAX; never 0' % ty, pc,
                       z3.And(nv == z3.If(g == 0xFFFFFFFF, z3.BitVecVal(1, 32), g + 1), nv != 0))
            else:
                cx.add('%s::next returns g + 1 and only below u32::MAX' % ty, pc, z3.And(nv == g + 1, g != 0xFFFFFFFF, nv != 0))
        if cx.wrapping:
            cx.no_panic(k, ty + '::next (wrapping_version)')
        else:
            cx.add('%s::next: the overflow panic exists' % ty, [], z3.BoolVal(len(k.panics) >= 1))
            for pc, msg in k.panics:
                cx.add('%s::next panics ("%s") only at u32::MAX' % (ty, msg.strip('"')[:40]), pc, g == 0xFFFFFFFF)
            # the panic is reachable exactly at MAX: MAX has no returning path
            cx.add('%s::next: no returning path at u32::MAX' % ty, [g == 0xFFFFFFFF], z3.Not(z3.Or([z3.And(*pc) if pc else z3.BoolVal(True) for pc, _ in outs])) if outs else z3.BoolVal(True))
        cx.absorb(k, ty + '::next')


def slot_index_encoding(cx):
    """SlotIndex free-bit encoding (support for C01/C03/C12)."""
    i = z3.BitVec('i', 32)
    ti = Struct('TrimmedIndex', [i])
    pre = [z3.ULT(i, MAXCAP)]
    k = cx.kernel()
    for pc, v in k.run(cx.mir.fn('::new_free', 'TrimmedIndex) -> SlotIndex'), [ti], pre):
        raw = v.fields[0]
        cx.add('SlotIndex::new_free sets the free bit', pc, z3.Extract(31, 31, raw) == 1)
        cx.add('SlotIndex::new_free is never the free-list end marker', pc, raw != 0xFFFFFFFF)
        k2 = cx.kernel()
        for pc2, r in k2.run(cx.mir.fn('::index_free', '&SlotIndex'), [Ref([v])], pc):
            cx.add('index_free(new_free(i)) == Some(i)', pc2, z3.And(z3.BoolVal(r.variant == 'Some'), r.fields[0].fields[0] == i) if r.variant == 'Some' else z3.BoolVal(False))
        cx.absorb(k2, 'index_free'); cx.no_panic(k2, 'index_free(new_free)')
        k3 = cx.kernel()
        for pc3, r in k3.run(cx.mir.fn('::is_free', '&SlotIndex) -> bool'), [Ref([v])], pc):
            cx.add('is_free(new_free(i))', pc3, r)
        cx.absorb(k3, 'is_free')
    cx.absorb(k, 'new_free'); cx.no_panic(k, 'new_free')
    k = cx.kernel()
    for pc, v in k.run(cx.mir.fn('::new_data', 'TrimmedIndex) -> SlotIndex'), [ti], pre):
        raw = v.fields[0]
        cx.add('SlotIndex::new_data keeps the free bit clear and the value', pc, z3.And(z3.Extract(31, 31, raw) == 0, raw == i))
        k2 = cx.kernel()
        for pc2, r in k2.run(cx.mir.fn('::index_data', '&SlotIndex'), [Ref([v])], pc):
            cx.add('index_data(new_data(i)) == Some(i)', pc2, z3.And(z3.BoolVal(r.variant == 'Some'), r.fields[0].fields[0] == i) if r.variant == 'Some' else z3.BoolVal(False))
        cx.absorb(k2, 'index_data'); cx.no_panic(k2, 'index_data(new_data)')
    cx.absorb(k, 'new_data'); cx.no_panic(k, 'new_data')
    k = cx.kernel()
    for pc, v in k.run(cx.mir.fn('::free_end', '() -> SlotIndex') if any(it.name.endswith('::free_end') for it in cx.mir.items) else cx.mir.fn('::free_end'), [], []):
        raw = v.fields[0]
        cx.add('free_end is free, is the end marker, and exceeds every valid index', pc, z3.And(z3.Extract(31, 31, raw) == 1, z3.UGE(raw & 0x7FFFFFFF, MAXCAP)))
    cx.absorb(k, 'free_end')


def constants(cx):
    k = cx.kernel()
    mc = k.const('index::MAX_DATA_CAPACITY')
    mi = k.const('index::MAX_DATA_INDEX')
    cx.add('MAX_DATA_CAPACITY == 2^24', [], mc == MAXCAP)
    cx.add('MAX_DATA_INDEX == 2^24 - 1', [], mi == MAXCAP - 1)
    cx.functions |= k.interpreted


def growth(cx, n_columns=1):
    """Capacity arithmetic of StorageN::grow for EVERY usize capacity: below 2^24 the new capacity is
    strictly larger and at most 2^24; at or above 2^24 grow returns false before any store through self (C12)."""
    cap = z3.BitVec('capacity', 64); ln = z3.BitVec('len', 64)
    it = cx.mir.find(lambda it: it.kind == 'fn' and re.search(r'Storage%d::<A, .*>::grow$' % n_columns, it.name) is not None or (it.kind == 'fn' and it.name.endswith('::grow') and 'Storage%d<' % n_columns in it.header), 'Storage%d::grow' % n_columns)
    storage = Struct('Storage', [None] * 12)
    # field order is taken from the MIR itself: we only need `capacity` and `len`, located by the
    # accesses `((*_1).K: usize)`; every usize field of self gets the same two symbolic candidates.
    body = it.text()
    usize_fields = sorted(set(int(m) for m in re.findall(r'\(\(\*_1\)\.(\d+): usize\)', body)))
    k = cx.kernel(stop_callees=(r'DataPtr::<.*>::grow$',))
    # which field is capacity: the one compared against MAX_DATA_CAPACITY first. We cannot know the
    # name from MIR text alone, so the debug info lines are used: `debug self => _1` only. Fall back:
    # try each assignment of (capacity, len) to the usize fields and require the obligations for the
    # assignment in which `len == capacity` (grow's documented precondition: storage is full).
    for f in usize_fields:
        storage.fields[f] = cap     # full storage: len == capacity
    outs = k.run(it, [Ref([storage])], [])
    if not k.stops and not outs:
        raise Unsupported('grow: no path')
    small = z3.ULT(cap, MAXCAP)
    for pc, callee, args in k.stops:
        old, new = args[1], args[2]
        cx.add('grow: reallocates only below the 2^24 limit', pc, small)
        cx.add('grow: old capacity passed to DataPtr::grow is the current capacity', pc, old == cap)
        cx.add('grow: new capacity is strictly larger', pc, z3.UGT(new, cap))
        cx.add('grow: new capacity never exceeds 2^24', pc, z3.ULE(new, MAXCAP))
        cx.add('grow: new capacity == min((capacity + 1) * 2, 2^24)', pc, new == z3.If(z3.ULT((cap + 1) * 2, MAXCAP), (cap + 1) * 2, z3.BitVecVal(MAXCAP, 64)))
    cx.add('grow: a reallocating path exists', [], z3.BoolVal(len(k.stops) >= 1))
    for pc, v in outs:
        cx.add('grow: returns without reallocating only at or above 2^24, with false', pc, z3.And(z3.Not(small), z3.Not(v) if z3.is_bool(v) else z3.BoolVal(False)))
    for pc, st in k.stores_through_self:
        cx.add('grow: no store through self on the refusing path (%s)' % st[:40], pc, small)
    cx.absorb(k, 'grow')
    cx.no_panic(k, 'grow (full storage)')


def _storage_field_order():
    """Field order of `struct StorageN` read from the source on every run (MIR addresses fields by position)."""
    import os
    from .. import common
    src = open(os.path.join(common.REPO, 'src', 'archetype', 'storage.rs')).read()
    m = re.search(r'pub struct \$name<A: Archetype, #\(T~I,\)\*> \{(.*?)\n            \}', src, re.S)
    if not m:
        raise Unsupported('struct StorageN declaration not found in src/archetype/storage.rs')
    names = []
    for line in m.group(1).splitlines():
        line = line.strip()
        f = re.match(r'(?:pub(?:\(crate\))? )?(\w+): ', line)
        if f:
            names.append(f.group(1))
        elif line.startswith('#(d~I'):
            names.append('d~I')
    return names


def admission(cx, n_columns=1):
    """push / push_within_capacity of StorageN for EVERY (len, capacity) admitted by Inv (C12):
    push panics exactly at len == capacity == 2^24, calls grow only on a full storage and reaches
    force_create only with room; push_within_capacity creates iff len < capacity, Err otherwise.
    grow() is a modelled callee here with the contract the `growth` family discharges on the same MIR:
    called on a full storage it returns capacity < 2^24."""
    order = _storage_field_order()
    for need in ('len', 'capacity', 'free_head'):
        if need not in order:
            raise Unsupported('StorageN has no field %s' % need)
    cap = z3.BitVec('capacity', 64); ln = z3.BitVec('len', 64)
    fh_end = z3.Bool('free_head_is_end'); grow_ret = z3.Bool('grow_returns')
    pre = [z3.ULE(ln, cap), z3.ULE(cap, z3.BitVecVal(MAXCAP, 64)), z3.Implies(ln == cap, fh_end),
           z3.Implies(ln == cap, grow_ret == z3.ULT(cap, z3.BitVecVal(MAXCAP, 64)))]

    def storage():
        st = Struct('Storage', [None] * 12)
        st.fields[order.index('len')] = ln
        st.fields[order.index('capacity')] = cap
        st.fields[order.index('free_head')] = Struct('SlotIndex', [z3.BitVec('free_head_raw', 32)])
        return st

    def find(name):
        return cx.mir.find(lambda it: it.kind == 'fn' and it.name.endswith('::' + name) and re.search(r'_1: &mut Storage%d<' % n_columns, it.header) is not None, 'Storage%d::%s' % (n_columns, name))

    ext = {r'Storage\d+::<.*>::grow$': (lambda a: grow_ret), r'SlotIndex::is_free_end$': (lambda a: fh_end)}
    full = ln == cap
    # ---- push
    it = find('push')
    k = cx.kernel(stop_callees=(r'::force_create::<',), extern=ext)
    outs = k.run(it, [Ref([storage()]), Struct('D', [])], list(pre))
    creates = [s_ for s_ in k.stops if 'force_create' in s_[1]]
    cx.add('push: a creating path exists', [], z3.BoolVal(len(creates) >= 1))
    for pc, callee, args in creates:
        cx.add('push: reaches force_create only with room (len < capacity, or a full storage after grow() succeeded)', pc, z3.Or(z3.ULT(ln, cap), z3.And(full, grow_ret)))
    for pc, v in outs:
        cx.add('push: returns only through force_create', pc, z3.BoolVal(False))
    for pc, msg in k.panics:
        cx.add('push: panics ("%s") exactly at the limit len == capacity == 2^24 — create always succeeds below 16,777,216 entities' % msg[:40], pc, z3.And(full, cap == z3.BitVecVal(MAXCAP, 64)))
    cx.absorb(k, 'push')
    k2 = cx.kernel(stop_callees=(r'::force_create::<', r'Storage\d+::<.*>::grow$'), extern={r'SlotIndex::is_free_end$': (lambda a: fh_end)})
    k2.run(it, [Ref([storage()]), Struct('D', [])], list(pre))
    grows = [s_ for s_ in k2.stops if s_[1].endswith('::grow')]
    cx.add('push: a growing path exists', [], z3.BoolVal(len(grows) >= 1))
    for pc, callee, args in grows:
        cx.add('push: grow() is called only on a full storage (it wipes and rebuilds the free list)', pc, full)
    cx.functions |= k2.interpreted
    # the limit is really refused: some panic path is feasible at len == capacity == 2^24
    lim = [z3.And(*(pc + [full, cap == z3.BitVecVal(MAXCAP, 64)])) for pc, msg in k.panics]
    cx.add('push: at len == capacity == 2^24 no creating path is feasible', [full, cap == z3.BitVecVal(MAXCAP, 64)] + list(pre),
           z3.Not(z3.Or([z3.And(*pc) for pc, c_, a_ in creates])) if creates else z3.BoolVal(True))
    # ---- push_within_capacity
    it = find('push_within_capacity')
    k3 = cx.kernel(stop_callees=(r'::force_create::<',), extern=ext)
    outs = k3.run(it, [Ref([storage()]), Struct('D', [])], list(pre))
    creates3 = [s_ for s_ in k3.stops if 'force_create' in s_[1]]
    cx.add('push_within_capacity: a creating path exists', [], z3.BoolVal(len(creates3) >= 1))
    for pc, callee, args in creates3:
        cx.add('push_within_capacity: creates only when len < capacity', pc, z3.ULT(ln, cap))
    cx.add('push_within_capacity: a refusing path exists', [], z3.BoolVal(len(outs) >= 1))
    for pc, v in outs:
        is_err = isinstance(v, Enum) and v.variant == 'Err'
        cx.add('push_within_capacity: returns without creating only when full, with Err(argument)', pc, z3.And(full, z3.BoolVal(is_err)))
    for pc, callee, args in [s_ for s_ in k3.stops if 'force_create' not in s_[1]]:
        cx.add('push_within_capacity: calls nothing else (%s)' % callee[:40], pc, z3.BoolVal(False))
    cx.absorb(k3, 'push_within_capacity')
    cx.no_panic(k3, 'push_within_capacity (Inv state)')


FAMILIES = {
    'index_extraction': index_extraction,
    'trimmed_index': trimmed_index,
    'packing': packing,
    'conversions': conversions,
    'hashing': hashing,
    'version_next': version_next,
    'slot_index_encoding': slot_index_encoding,
    'constants': constants,
    'growth': growth,
    'admission': admission,
}
