"""MIR dump generation (from /repo's current working tree, every run) and parsing."""
import os, re, subprocess, time
from .. import common


class MirError(Exception):
    pass


def split_top(s, sep=','):
    out = []; depth = 0; cur = ''; instr = False; prev = ''
    for ch in s:
        if ch == '"' and prev != '\\':
            instr = not instr
        if not instr:
            if ch in '<([{': depth += 1
            if ch in ')]}': depth -= 1
            if ch == '>' and prev != '-': depth -= 1
        if ch == sep and depth == 0 and not instr:
            out.append(cur.strip()); cur = ''
        else:
            cur += ch
        prev = ch
    if cur.strip():
        out.append(cur.strip())
    return out


class Item:
    def __init__(self, header, body):
        self.header = header
        self.kind = header.split(' ', 1)[0]
        if self.kind == 'fn':
            m = re.match(r'fn (.+?)\((.*)\) -> (.+) \{$', header)
            if not m:
                raise MirError('header ' + header)
            self.name, self.ret = m.group(1), m.group(3)
            self.params = split_top(m.group(2))
        else:
            m = re.match(r'(?:const|static) (.+?): (.+?) = \{$', header)
            if not m:
                raise MirError('header ' + header)
            self.name, self.ret = m.group(1), m.group(2)
            self.params = []
        self.locals = {}
        self.blocks = {}
        self.cleanup = set()
        cur = None
        for l in body:
            s = l.strip()
            m = re.match(r'let (mut )?(_\d+): (.+);$', s)
            if m:
                self.locals[m.group(2)] = m.group(3); continue
            m = re.match(r'(bb\d+)( \(cleanup\))?: \{$', s)
            if m:
                cur = m.group(1); self.blocks[cur] = []
                if m.group(2):
                    self.cleanup.add(cur)
                continue
            if s == '}':
                cur = None; continue
            if cur is not None and s:
                self.blocks[cur].append(s.rstrip(';'))
        for p in self.params:
            if ': ' in p:
                n, t = p.split(': ', 1)
                self.locals[n] = t

    def text(self):
        return self.header + '\n' + '\n'.join('%s: %s' % (b, '; '.join(st)) for b, st in self.blocks.items())


def norm(text):
    """drops lower-case module path prefixes: `version::ArchetypeVersion` -> `ArchetypeVersion`"""
    return re.sub(r'\b(?:[a-z_][a-z0-9_]*::)+(?=[A-Z<(])', '', text)


class Mir:
    def __init__(self, text):
        self.items = []
        lines = text.split('\n')
        i = 0
        while i < len(lines):
            l = lines[i]
            if (l.startswith('fn ') or l.startswith('const ') or l.startswith('static ')) and l.endswith('{'):
                j = i + 1
                while j < len(lines) and lines[j] != '}':
                    j += 1
                try:
                    self.items.append(Item(l, lines[i + 1:j]))
                except MirError:
                    pass
                i = j
            i += 1

    def find(self, pred, what=''):
        r = [it for it in self.items if pred(it)]
        if not r:
            raise MirError('no MIR item: ' + what)
        return r[0]   # const fns appear twice with identical bodies

    def fn(self, suffix, sig=None):
        return self.find(lambda it: it.kind == 'fn' and (it.name == suffix or it.name.endswith(suffix)) and (sig is None or sig in it.header or sig in norm(it.header)),
                         'fn %s [%s]' % (suffix, sig))


def dump(crate, debug_assertions=True, features=()):
    """crate: 'gecs' | 'gecs_macros'. Returns (text, seconds). A fresh target dir in scratch makes
    sure rustc really runs on the current working tree; nothing is written under /repo."""
    root = common.scratch_root()
    tdir = os.path.join(root, "mir_target")
    out = os.path.join(root, "mir_%s_%s_%s.mir" % (crate, "dbg" if debug_assertions else "nodbg", "+".join(features) or "default"))
    if os.path.exists(out):
        return open(out).read(), 0.0
    cmd = ["cargo", "+nightly", "rustc", "--offline", "-p", crate, "--lib"]
    if features:
        cmd += ["--features", ",".join(features)]
    cmd += ["--", "-Zunpretty=mir", "-C", "overflow-checks=on", "-C", "debug-assertions=%s" % ("on" if debug_assertions else "off")]
    env = common.base_env()
    env["CARGO_TARGET_DIR"] = tdir
    t0 = time.time()
    # force re-execution of rustc for this crate only: remove its fingerprints from the scratch target
    fp = os.path.join(tdir, "debug", ".fingerprint")
    if os.path.isdir(fp):
        for d in os.listdir(fp):
            if d.startswith(crate + "-") or d.startswith(crate.replace("_", "-") + "-"):
                import shutil
                shutil.rmtree(os.path.join(fp, d), ignore_errors=True)
    p = subprocess.run(cmd, cwd=common.REPO, env=env, capture_output=True, text=True, timeout=1200)
    if p.returncode != 0 or "fn " not in p.stdout:
        raise MirError("MIR dump of %s failed: %s" % (crate, p.stderr[-800:]))
    with open(out, "w") as f:
        f.write(p.stdout)
    return p.stdout, time.time() - t0
