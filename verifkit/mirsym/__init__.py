"""E2: symbolic interpretation of rustc's MIR for recatek/gecs, decided by z3 and cvc5."""
