// DECORATED queries: a DISABLED parameter of every kind that could restrict the match set
// (component only one archetype has, Entity<A>, EntityDirect<A>, and the non-restricting kinds),
// at the first / middle / last position, through all five macros. The erased twin simply omits them.
pub mod common {
    use gecs::prelude::*;
    pub struct CA(pub u32); pub struct CB(pub u32); pub struct CC(pub u32);
    ecs_world! {
        ecs_name!(WB);
        #[archetype_id(9)]
        ecs_archetype!(B0, CA, CB);
        #[archetype_id(4)]
        ecs_archetype!(B1, CA);
        #[archetype_id(1)]
        ecs_archetype!(B2, CC, CA);
    }
    pub fn world() -> (WB, [EntityAny; 3]) {
        let mut w = WB::new();
        let e0 = w.create::<B0>((CA(1), CB(10))).into_any();
        w.create::<B0>((CA(2), CB(20)));
        let e1 = w.create::<B1>((CA(100),)).into_any();
        let e2 = w.create::<B2>((CC(7), CA(1000))).into_any();
        w.create::<B2>((CC(8), CA(2000)));
        (w, [e0, e1, e2])
    }
}
pub mod decorated {
    use super::common::*;
    use gecs::prelude::*;
    pub fn observe() -> Vec<i64> {
        let (mut w, es) = world();
        let mut out = Vec::new();
        let mut s = 0i64;
        ecs_iter!(w, |#[cfg(any())] d: &EntityDirect<B0>, a: &CA| { s += a.0 as i64; });
        out.push(s);
        let mut s = 0i64;
        ecs_iter!(w, |a: &CA, #[cfg(not(all()))] e: &Entity<B2>| { s += a.0 as i64; });
        out.push(s);
        let mut s = 0i64;
        ecs_iter_borrow!(w, |#[cfg(any())] b: &CB, a: &CA, #[cfg(any())] c: &mut CC| { s += a.0 as i64; });
        out.push(s);
        let mut s = 0i64;
        ecs_iter_borrow!(w, |#[cfg(any())] x: &EntityAny, a: &CA, #[cfg(any())] y: &EntityDirectAny, #[cfg(any())] z: &Entity<_>, #[cfg(any())] q: &EntityDirect<_>| { s += a.0 as i64; });
        out.push(s);
        for e in es {
            out.push(ecs_find!(w, e, |#[cfg(any())] d: &EntityDirect<B1>, a: &CA| a.0 as i64).unwrap_or(-1));
            out.push(ecs_find_borrow!(w, e, |a: &CA, #[cfg(any())] #[cfg(all())] c: &CC| a.0 as i64).unwrap_or(-1));
            out.push(ecs_find!(w, e, |#[cfg(any())] t: &Entity<B0>, a: &mut CA| a.0 as i64).unwrap_or(-1));
        }
        let mut d = 0i64;
        ecs_iter_destroy!(w, |#[cfg(any())] t: &EntityDirect<B2>, a: &CA, #[cfg(any())] b: &CB| {
            d += a.0 as i64;
            if a.0 % 2 == 0 { EcsStepDestroy::ContinueDestroy } else { EcsStepDestroy::Continue }
        });
        out.push(d);
        out.push(w.b_0.len() as i64); out.push(w.b_1.len() as i64); out.push(w.b_2.len() as i64);
        out
    }
}
pub mod erased {
    use super::common::*;
    use gecs::prelude::*;
    pub fn observe() -> Vec<i64> {
        let (mut w, es) = world();
        let mut out = Vec::new();
        let mut s = 0i64;
        ecs_iter!(w, |a: &CA| { s += a.0 as i64; });
        out.push(s);
        let mut s = 0i64;
        ecs_iter!(w, |a: &CA| { s += a.0 as i64; });
        out.push(s);
        let mut s = 0i64;
        ecs_iter_borrow!(w, |a: &CA| { s += a.0 as i64; });
        out.push(s);
        let mut s = 0i64;
        ecs_iter_borrow!(w, |a: &CA| { s += a.0 as i64; });
        out.push(s);
        for e in es {
            out.push(ecs_find!(w, e, |a: &CA| a.0 as i64).unwrap_or(-1));
            out.push(ecs_find_borrow!(w, e, |a: &CA| a.0 as i64).unwrap_or(-1));
            out.push(ecs_find!(w, e, |a: &mut CA| a.0 as i64).unwrap_or(-1));
        }
        let mut d = 0i64;
        ecs_iter_destroy!(w, |a: &CA| {
            d += a.0 as i64;
            if a.0 % 2 == 0 { EcsStepDestroy::ContinueDestroy } else { EcsStepDestroy::Continue }
        });
        out.push(d);
        out.push(w.b_0.len() as i64); out.push(w.b_1.len() as i64); out.push(w.b_2.len() as i64);
        out
    }
}
