// DECORATED queries: several attributes on ONE parameter, several distinct predicates in one query,
// both orders, all five macros. Every archetype has both components so nothing becomes a compile error.
pub mod common {
    use gecs::prelude::*;
    pub struct CA(pub u32); pub struct CB(pub u32);
    ecs_world! {
        ecs_name!(WQ);
        ecs_archetype!(A0, CA, CB);
        ecs_archetype!(A1, CB, CA);
    }
    pub fn world() -> (WQ, Entity<A0>) {
        let mut w = WQ::new();
        let e = w.create::<A0>((CA(1), CB(10)));
        w.create::<A0>((CA(2), CB(20)));
        w.create::<A1>((CB(30), CA(3)));
        (w, e)
    }
}
pub mod decorated {
    use super::common::*;
    use gecs::prelude::*;
    pub fn observe() -> Vec<i64> {
        let (mut w, e) = world();
        let mut out = Vec::new();
        let b = &CB(1000);      // outer name: a DISABLED parameter `b` must not shadow it
        let mut s = 0i64;
        ecs_iter!(w, |a: &CA, #[cfg(any())] #[cfg(all())] b: &CB| { s += (a.0 + b.0) as i64; });
        out.push(s);
        let mut t = 0i64;
        ecs_iter!(w, |#[cfg(all())] #[cfg(any())] b: &CB, a: &CA| { t += (a.0 + b.0) as i64; });
        out.push(t);
        let mut u = 0i64;   // enabled by two true predicates: the entity's own CB
        ecs_iter_borrow!(w, |#[cfg(all())] #[cfg(not(any()))] b: &CB, #[cfg(any())] x: &Entity<A1>, a: &CA| { u += (a.0 + b.0) as i64; });
        out.push(u);
        let r = ecs_find!(w, e, |#[cfg(any())] #[cfg(all())] b: &CB, #[cfg(not(any()))] a: &CA| (a.0 + b.0) as i64);
        out.push(r.unwrap_or(-1));
        let r2 = ecs_find_borrow!(w, e, |#[cfg(not(any()))] a: &CA, #[cfg(all())] #[cfg(any())] b: &mut CB| (a.0 + b.0) as i64);
        out.push(r2.unwrap_or(-1));
        let mut d = 0i64;
        ecs_iter_destroy!(w, |#[cfg(any())] x: &Entity<A0>, #[cfg(all())] a: &CA, #[cfg(any())] #[cfg(all())] b: &CB| {
            d += (a.0 + b.0) as i64;
            if a.0 == 2 { EcsStepDestroy::ContinueDestroy } else { EcsStepDestroy::Continue }
        });
        out.push(d);
        out.push(w.a_0.len() as i64); out.push(w.a_1.len() as i64);
        out
    }
}
pub mod erased {
    use super::common::*;
    use gecs::prelude::*;
    pub fn observe() -> Vec<i64> {
        let (mut w, e) = world();
        let mut out = Vec::new();
        let b = &CB(1000);
        let mut s = 0i64;
        ecs_iter!(w, |a: &CA| { s += (a.0 + b.0) as i64; });
        out.push(s);
        let mut t = 0i64;
        ecs_iter!(w, |a: &CA| { t += (a.0 + b.0) as i64; });
        out.push(t);
        let mut u = 0i64;
        ecs_iter_borrow!(w, |b: &CB, a: &CA| { u += (a.0 + b.0) as i64; });
        out.push(u);
        let r = ecs_find!(w, e, |a: &CA| (a.0 + b.0) as i64);
        out.push(r.unwrap_or(-1));
        let r2 = ecs_find_borrow!(w, e, |a: &CA| (a.0 + b.0) as i64);
        out.push(r2.unwrap_or(-1));
        let mut d = 0i64;
        ecs_iter_destroy!(w, |a: &CA| {
            d += (a.0 + b.0) as i64;
            if a.0 == 2 { EcsStepDestroy::ContinueDestroy } else { EcsStepDestroy::Continue }
        });
        out.push(d);
        out.push(w.a_0.len() as i64); out.push(w.a_1.len() as i64);
        out
    }
}
