// DECORATED queries whose parameters mix BUILD-DEPENDENT predicates (debug_assertions and its negation:
// exactly one of them holds in any build) with CONSTANT ones (any() / all()) in both orders, repeated
// predicate texts, and parameters with two stacked attributes of mixed truth in both orders.
// `dbg!`-free: the twin is correct in every profile because each observation is written for both.
pub mod common {
    use gecs::prelude::*;
    pub struct CA(pub u32); pub struct CB(pub u32); pub struct CC(pub u32);
    ecs_world! {
        ecs_name!(WB);
        ecs_archetype!(B0, CA, CB);
        ecs_archetype!(B1, CA);
        ecs_archetype!(B2, CC, CA);
    }
    pub fn world() -> (WB, [EntityAny; 3]) {
        let mut w = WB::new();
        let e0 = w.create::<B0>((CA(1), CB(10))).into_any();
        w.create::<B0>((CA(2), CB(20)));
        let e1 = w.create::<B1>((CA(100),)).into_any();
        let e2 = w.create::<B2>((CC(7), CA(1000))).into_any();
        w.create::<B2>((CC(8), CA(2000)));
        (w, [e0, e1, e2])
    }
}
pub mod decorated {
    use super::common::*;
    use gecs::prelude::*;
    pub fn observe() -> Vec<i64> {
        let (mut w, es) = world();
        let mut out = Vec::new();
        // build-dependent predicate FIRST, constant second (and the other way round)
        let mut n = 0i64;
        ecs_iter!(w, |#[cfg(debug_assertions)] _b: &CB, #[cfg(any())] _c: &CC, _e: &EntityAny| { n += 1; });
        out.push(n);
        let mut n = 0i64;
        ecs_iter!(w, |#[cfg(not(debug_assertions))] _b: &CB, #[cfg(all())] _a: &CA, _e: &EntityAny| { n += 1; });
        out.push(n);
        let mut n = 0i64;
        ecs_iter_borrow!(w, |#[cfg(any())] _c: &CC, #[cfg(debug_assertions)] _b: &CB, #[cfg(all())] _a: &CA, #[cfg(not(debug_assertions))] _c2: &CC, _e: &EntityAny| { n += 1; });
        out.push(n);
        // stacked attributes on one parameter: false-then-true, true-then-false, true-then-true
        let mut n = 0i64;
        ecs_iter!(w, |#[cfg(any())] #[cfg(all())] _c: &CC, _a: &CA| { n += 1; });
        out.push(n);
        let mut n = 0i64;
        ecs_iter_borrow!(w, |_a: &CA, #[cfg(all())] #[cfg(any())] _b: &CB| { n += 1; });
        out.push(n);
        let mut n = 0i64;
        ecs_iter!(w, |#[cfg(all())] #[cfg(not(any()))] _b: &CB, _a: &CA| { n += 1; });
        out.push(n);
        for e in es {
            out.push(ecs_find!(w, e, |#[cfg(not(debug_assertions))] _c: &CC, #[cfg(all())] a: &CA, #[cfg(debug_assertions)] _c2: &CC| a.0 as i64).unwrap_or(-1));
            out.push(ecs_find_borrow!(w, e, |a: &CA, #[cfg(any())] #[cfg(debug_assertions)] _b: &CB, #[cfg(debug_assertions)] #[cfg(any())] _c: &CC| a.0 as i64).unwrap_or(-1));
        }
        let mut d = 0i64;
        ecs_iter_destroy!(w, |#[cfg(debug_assertions)] _b: &CB, #[cfg(any())] #[cfg(all())] _c: &CC, a: &CA| {
            d += a.0 as i64;
            if a.0 % 2 == 0 { EcsStepDestroy::ContinueDestroy } else { EcsStepDestroy::Continue }
        });
        out.push(d);
        out.push(w.b_0.len() as i64); out.push(w.b_1.len() as i64); out.push(w.b_2.len() as i64);
        out
    }
}
pub mod erased {
    use super::common::*;
    use gecs::prelude::*;
    pub fn observe() -> Vec<i64> {
        let (mut w, es) = world();
        let mut out = Vec::new();
        let mut n = 0i64;
        #[cfg(debug_assertions)]
        ecs_iter!(w, |_b: &CB, _e: &EntityAny| { n += 1; });
        #[cfg(not(debug_assertions))]
        ecs_iter!(w, |_e: &EntityAny| { n += 1; });
        out.push(n);
        let mut n = 0i64;
        #[cfg(debug_assertions)]
        ecs_iter!(w, |_a: &CA, _e: &EntityAny| { n += 1; });
        #[cfg(not(debug_assertions))]
        ecs_iter!(w, |_b: &CB, _a: &CA, _e: &EntityAny| { n += 1; });
        out.push(n);
        let mut n = 0i64;
        #[cfg(debug_assertions)]
        ecs_iter_borrow!(w, |_b: &CB, _a: &CA, _e: &EntityAny| { n += 1; });
        #[cfg(not(debug_assertions))]
        ecs_iter_borrow!(w, |_a: &CA, _c2: &CC, _e: &EntityAny| { n += 1; });
        out.push(n);
        let mut n = 0i64;
        ecs_iter!(w, |_a: &CA| { n += 1; });
        out.push(n);
        let mut n = 0i64;
        ecs_iter_borrow!(w, |_a: &CA| { n += 1; });
        out.push(n);
        let mut n = 0i64;
        ecs_iter!(w, |_b: &CB, _a: &CA| { n += 1; });
        out.push(n);
        for e in es {
            #[cfg(debug_assertions)]
            out.push(ecs_find!(w, e, |a: &CA, _c2: &CC| a.0 as i64).unwrap_or(-1));
            #[cfg(not(debug_assertions))]
            out.push(ecs_find!(w, e, |_c: &CC, a: &CA| a.0 as i64).unwrap_or(-1));
            out.push(ecs_find_borrow!(w, e, |a: &CA| a.0 as i64).unwrap_or(-1));
        }
        let mut d = 0i64;
        #[cfg(debug_assertions)]
        ecs_iter_destroy!(w, |_b: &CB, a: &CA| {
            d += a.0 as i64;
            if a.0 % 2 == 0 { EcsStepDestroy::ContinueDestroy } else { EcsStepDestroy::Continue }
        });
        #[cfg(not(debug_assertions))]
        ecs_iter_destroy!(w, |a: &CA| {
            d += a.0 as i64;
            if a.0 % 2 == 0 { EcsStepDestroy::ContinueDestroy } else { EcsStepDestroy::Continue }
        });
        out.push(d);
        out.push(w.b_0.len() as i64); out.push(w.b_1.len() as i64); out.push(w.b_2.len() as i64);
        out
    }
}
