// DECORATED: items carrying TWO stacked cfg attributes with mixed truth values in both orders (an item is
// present only if ALL of its predicates hold), disabled items with explicit ids that must not reserve
// or re-seed anything, and build-dependent predicates next to constant ones.
pub mod decorated {
    use gecs::prelude::*;
    pub struct CA(pub u8); pub struct CB(pub u8); pub struct CC(pub u8); pub struct CZ(pub u8);
    ecs_world! {
        ecs_name!(WD);
        #[cfg(any())]
        #[cfg(all())]
        ecs_archetype!(AGone1, CA, CZ);
        ecs_archetype!(AX, #[cfg(all())] #[cfg(any())] CZ, CA, #[cfg(any())] #[cfg(all())] #[component_id(7)] CZ, CB);
        #[cfg(all())]
        #[cfg(any())]
        #[archetype_id(40)]
        ecs_archetype!(AGone2, CB);
        #[cfg(all())]
        #[cfg(not(any()))]
        ecs_archetype!(AY, CB, #[cfg(any(debug_assertions, not(debug_assertions)))] #[cfg(all())] CC);
        #[cfg(all(debug_assertions, not(debug_assertions)))]
        #[cfg(all())]
        ecs_archetype!(AGone3, CC);
        ecs_archetype!(AZ, CC, CA);
    }
    pub fn observe() -> Vec<i64> {
        let mut w = WD::new();
        let x = w.create::<AX>((CA(1), CB(2)));
        let y = w.create::<AY>((CB(3), CC(4)));
        let z = w.create::<AZ>((CC(5), CA(6)));
        let mut out = vec![AX::ARCHETYPE_ID as i64, AY::ARCHETYPE_ID as i64, AZ::ARCHETYPE_ID as i64, WD::NUM_ARCHETYPES as i64,
            <AX as ArchetypeHas<CA>>::COMPONENT_ID as i64, <AX as ArchetypeHas<CB>>::COMPONENT_ID as i64,
            <AY as ArchetypeHas<CB>>::COMPONENT_ID as i64, <AY as ArchetypeHas<CC>>::COMPONENT_ID as i64,
            <AZ as ArchetypeHas<CC>>::COMPONENT_ID as i64, <AZ as ArchetypeHas<CA>>::COMPONENT_ID as i64,
            x.into_any().archetype_id() as i64, y.into_any().archetype_id() as i64, z.into_any().archetype_id() as i64];
        let mut n = 0i64; ecs_iter!(w, |a: &CA| { n += a.0 as i64; }); out.push(n);
        let mut m = 0i64; ecs_iter!(w, |e: &EntityAny, c: &CC| { m += 10 * e.archetype_id() as i64 + c.0 as i64; }); out.push(m);
        out
    }
}
// ERASED twin: false items deleted, attributes stripped
pub mod erased {
    use gecs::prelude::*;
    pub struct CA(pub u8); pub struct CB(pub u8); pub struct CC(pub u8);
    ecs_world! {
        ecs_name!(WE);
        ecs_archetype!(AX, CA, CB);
        ecs_archetype!(AY, CB, CC);
        ecs_archetype!(AZ, CC, CA);
    }
    pub fn observe() -> Vec<i64> {
        let mut w = WE::new();
        let x = w.create::<AX>((CA(1), CB(2)));
        let y = w.create::<AY>((CB(3), CC(4)));
        let z = w.create::<AZ>((CC(5), CA(6)));
        let mut out = vec![AX::ARCHETYPE_ID as i64, AY::ARCHETYPE_ID as i64, AZ::ARCHETYPE_ID as i64, WE::NUM_ARCHETYPES as i64,
            <AX as ArchetypeHas<CA>>::COMPONENT_ID as i64, <AX as ArchetypeHas<CB>>::COMPONENT_ID as i64,
            <AY as ArchetypeHas<CB>>::COMPONENT_ID as i64, <AY as ArchetypeHas<CC>>::COMPONENT_ID as i64,
            <AZ as ArchetypeHas<CC>>::COMPONENT_ID as i64, <AZ as ArchetypeHas<CA>>::COMPONENT_ID as i64,
            x.into_any().archetype_id() as i64, y.into_any().archetype_id() as i64, z.into_any().archetype_id() as i64];
        let mut n = 0i64; ecs_iter!(w, |a: &CA| { n += a.0 as i64; }); out.push(n);
        let mut m = 0i64; ecs_iter!(w, |e: &EntityAny, c: &CC| { m += 10 * e.archetype_id() as i64 + c.0 as i64; }); out.push(m);
        out
    }
}
