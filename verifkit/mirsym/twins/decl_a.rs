// DECORATED: three distinct predicates (T, T, F in first-appearance order), repeated texts, mid-list items
pub mod decorated {
    use gecs::prelude::*;
    pub struct CA(pub u8); pub struct CB(pub u8); pub struct CC(pub u8); pub struct CZ(pub u8);
    ecs_world! {
        ecs_name!(WD);
        #[cfg(all())]
        ecs_archetype!(AX, CA, #[cfg(any())] CZ, CB);
        #[cfg(not(any()))]
        ecs_archetype!(AY, #[cfg(any())] CZ, CB, #[cfg(all())] CC);
        #[cfg(any())]
        ecs_archetype!(AGone, CA, CZ);
        #[cfg(not(any()))]
        #[archetype_id(9)]
        ecs_archetype!(AZ, CC, #[cfg(not(any()))] #[cfg(all())] CA);
    }
    pub fn observe() -> Vec<i64> {
        let mut w = WD::new();
        w.create::<AX>((CA(1), CB(2)));
        w.create::<AY>((CB(3), CC(4)));
        w.create::<AZ>((CC(5), CA(6)));
        let mut out = vec![AX::ARCHETYPE_ID as i64, AY::ARCHETYPE_ID as i64, AZ::ARCHETYPE_ID as i64, WD::NUM_ARCHETYPES as i64,
            <AX as ArchetypeHas<CA>>::COMPONENT_ID as i64, <AX as ArchetypeHas<CB>>::COMPONENT_ID as i64,
            <AY as ArchetypeHas<CB>>::COMPONENT_ID as i64, <AY as ArchetypeHas<CC>>::COMPONENT_ID as i64,
            <AZ as ArchetypeHas<CC>>::COMPONENT_ID as i64, <AZ as ArchetypeHas<CA>>::COMPONENT_ID as i64];
        let mut n = 0i64; ecs_iter!(w, |a: &CA| { n += a.0 as i64; }); out.push(n);
        let mut m = 0i64; ecs_iter!(w, |e: &EntityAny, c: &CC| { m += 10 * e.archetype_id() as i64 + c.0 as i64; }); out.push(m);
        out
    }
}
// ERASED twin: false items deleted, attributes stripped
pub mod erased {
    use gecs::prelude::*;
    pub struct CA(pub u8); pub struct CB(pub u8); pub struct CC(pub u8);
    ecs_world! {
        ecs_name!(WE);
        ecs_archetype!(AX, CA, CB);
        ecs_archetype!(AY, CB, CC);
        #[archetype_id(9)]
        ecs_archetype!(AZ, CC, CA);
    }
    pub fn observe() -> Vec<i64> {
        let mut w = WE::new();
        w.create::<AX>((CA(1), CB(2)));
        w.create::<AY>((CB(3), CC(4)));
        w.create::<AZ>((CC(5), CA(6)));
        let mut out = vec![AX::ARCHETYPE_ID as i64, AY::ARCHETYPE_ID as i64, AZ::ARCHETYPE_ID as i64, WE::NUM_ARCHETYPES as i64,
            <AX as ArchetypeHas<CA>>::COMPONENT_ID as i64, <AX as ArchetypeHas<CB>>::COMPONENT_ID as i64,
            <AY as ArchetypeHas<CB>>::COMPONENT_ID as i64, <AY as ArchetypeHas<CC>>::COMPONENT_ID as i64,
            <AZ as ArchetypeHas<CC>>::COMPONENT_ID as i64, <AZ as ArchetypeHas<CA>>::COMPONENT_ID as i64];
        let mut n = 0i64; ecs_iter!(w, |a: &CA| { n += a.0 as i64; }); out.push(n);
        let mut m = 0i64; ecs_iter!(w, |e: &EntityAny, c: &CC| { m += 10 * e.archetype_id() as i64 + c.0 as i64; }); out.push(m);
        out
    }
}
