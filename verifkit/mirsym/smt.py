"""Obligation discharge: every obligation is decided `unsat` (negated claim under the path
condition) by in-process z3 AND, exported as SMT-LIB2, by the z3 4.8.12 and cvc5 1.0 binaries.
Any `(error`, `unknown`, timeout or disagreement makes the obligation inconclusive."""
import os, re, subprocess, time
import z3
from .. import common


class Obligation:
    def __init__(self, name, pc, claim, meta=None):
        self.name, self.pc, self.claim, self.meta = name, list(pc), claim, meta or {}
        self.result = None      # 'holds' | 'violated' | 'inconclusive'
        self.model = None
        self.note = ''


def _script(ob):
    s = z3.Solver()
    s.add(*ob.pc)
    s.add(z3.Not(ob.claim))
    txt = s.to_smt2()
    lines = [l for l in txt.splitlines() if not l.startswith('(set-info') and not l.startswith('(set-logic') and not l.startswith('; benchmark')]
    return '\n'.join(lines)


def discharge(obs, timeout_s=120, cross_check=True):
    """Decides all obligations. Returns solver seconds."""
    t0 = time.time()
    for ob in obs:
        s = z3.Solver()
        s.set('timeout', timeout_s * 1000)
        s.add(*ob.pc)
        s.add(z3.Not(ob.claim))
        r = s.check()
        if r == z3.unsat:
            ob.result = 'holds'
        elif r == z3.sat:
            ob.result = 'violated'
            ob.model = s.model()
        else:
            ob.result = 'inconclusive'
            ob.note = 'z3 (in-process): unknown'
    if cross_check and obs:
        root = common.scratch_root()
        path = os.path.join(root, 'smt_batch_%s.smt2' % common.sha(''.join(o.name for o in obs) + str(time.time())))
        with open(path, 'w') as f:
            f.write('(set-logic ALL)\n')
            for ob in obs:
                f.write('(push 1)\n')
                f.write(_script(ob))
                f.write('\n(pop 1)\n')
        for solver, cmd in (('z3-4.8.12', ['/usr/bin/z3', '-T:%d' % (timeout_s * max(1, len(obs) // 4)), path]),
                            ('cvc5', ['cvc5', '--incremental', '--lang', 'smt2', '--tlimit-per=%d' % (timeout_s * 1000), path])):
            try:
                p = subprocess.run(cmd, capture_output=True, text=True, timeout=timeout_s * max(2, len(obs)))
                out = p.stdout + p.stderr
            except subprocess.TimeoutExpired:
                out = '(error "timeout")'
            answers = [l.strip() for l in out.splitlines() if l.strip() in ('sat', 'unsat', 'unknown')]
            err = '(error' in out
            if err or len(answers) != len(obs):
                for ob in obs:
                    if ob.result == 'holds':
                        ob.result = 'inconclusive'
                        ob.note = '%s: %s' % (solver, 'error line in output' if err else 'answered %d of %d queries' % (len(answers), len(obs)))
                continue
            for ob, a in zip(obs, answers):
                want = {'holds': 'unsat', 'violated': 'sat'}.get(ob.result)
                if want and a != want:
                    ob.note = '%s answers %s, in-process z3 said %s' % (solver, a, ob.result)
                    ob.result = 'inconclusive'
    return time.time() - t0


def model_dict(model):
    d = {}
    if model is None:
        return d
    for decl in model.decls():
        v = model[decl]
        try:
            d[decl.name()] = v.as_long() if hasattr(v, 'as_long') else (z3.is_true(v) if z3.is_bool(v) else str(v))
        except Exception:
            d[decl.name()] = str(v)
    return d
