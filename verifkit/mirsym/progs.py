"""Native side of E2: turn a concrete declaration / query (a solver model) into a REAL Rust program
that uses the real gecs macros, build and run it against /repo's working tree, and compare with
an expectation. Used (a) to replay a solver counterexample before it is reported and (b) to
validate the MIR interpreter against the implementation (Serval-style): witnesses of explored
paths are pushed through the real macro and must produce what the interpreter predicted."""
import os, re, shutil, subprocess
from .. import common


def _cfg(truth):
    return '#[cfg(all())]' if truth else '#[cfg(any())]'


def decl_source(mod, decl):
    """decl: {'archetypes': [{'name','explicit': int|None,'cfgs':[bool,..],'components':[{'name','explicit','cfgs'}]}]}
    Component types are shared structs T0..Tn declared once per module."""
    comp_names = sorted({c['name'] for a in decl['archetypes'] for c in a['components']})
    out = ['pub mod %s {' % mod, '    #![allow(unused, dead_code)]', '    use gecs::prelude::*;']
    for n in comp_names:
        out.append('    pub struct %s;' % n)
    out.append('    ecs_world! {')
    out.append('        ecs_name!(World%s);' % mod.capitalize())
    for a in decl['archetypes']:
        attrs = ''.join(_cfg(t) + ' ' for t in a['cfgs'])
        if a['explicit'] is not None:
            attrs += '#[archetype_id(%d)] ' % a['explicit']
        comps = []
        for c in a['components']:
            ca = ''.join(_cfg(t) + ' ' for t in c['cfgs'])
            if c['explicit'] is not None:
                ca += '#[component_id(%d)] ' % c['explicit']
            comps.append(ca + c['name'])
        out.append('        %secs_archetype!(%s, %s);' % (attrs, a['name'], ', '.join(comps)))
    out.append('    }')
    return out


def decl_ok_module(mod, decl, expect):
    """expect: {'archetypes': [(name, id, [(comp name, id)])]} — asserted against the real constants."""
    out = decl_source(mod, decl)
    out.append('    pub fn check() -> Vec<String> {')
    out.append('        let mut bad = Vec::new();')
    names = [n for n, _, _ in expect['archetypes']]
    for n, aid, comps in expect['archetypes']:
        out.append('        if <%s as Archetype>::ARCHETYPE_ID != %d { bad.push(format!("%s::%s ARCHETYPE_ID = {} expected %d", <%s as Archetype>::ARCHETYPE_ID)); }' % (n, aid, mod, n, aid, n))
        for cn, cid in comps:
            out.append('        if <%s as ArchetypeHas<%s>>::COMPONENT_ID != %d { bad.push(format!("%s::%s/%s COMPONENT_ID = {} expected %d", <%s as ArchetypeHas<%s>>::COMPONENT_ID)); }' % (n, cn, cid, mod, n, cn, cid, n, cn))
    out.append('        if <World%s as World>::NUM_ARCHETYPES != %d { bad.push(format!("%s NUM_ARCHETYPES = {} expected %d", <World%s as World>::NUM_ARCHETYPES)); }' % (mod.capitalize(), len(names), mod, len(names), mod.capitalize()))
    out.append('        bad')
    out.append('    }')
    out.append('}')
    return '\n'.join(out)


def query_module(mod, world, query, expect_matched):
    """world: [{'name', 'components': [names]}]; query: [{'kind','names':[...],'cfg': None|bool}]
    expect_matched: list of archetype names for which the closure must run (one entity each)."""
    comp_names = sorted({c for a in world for c in a['components']})
    out = ['pub mod %s {' % mod, '    #![allow(unused, dead_code)]', '    use gecs::prelude::*;']
    for n in comp_names:
        out.append('    #[derive(Default)] pub struct %s(pub u8);' % n)
    out.append('    ecs_world! {')
    out.append('        ecs_name!(World%s);' % mod.capitalize())
    for a in world:
        out.append('        ecs_archetype!(%s, %s);' % (a['name'], ', '.join(a['components'])))
    out.append('    }')
    params = []
    for i, p in enumerate(query):
        attr = '' if p.get('cfg') is None else _cfg(p['cfg']) + ' '
        k = p['kind']
        if k == 'C': ty = '&%s' % p['names'][0]
        elif k in 'OP': ty = '&OneOf<%s>' % ', '.join(p['names'])
        elif k == 'E': ty = '&Entity<%s>' % p['names'][0]
        elif k == 'D': ty = '&EntityDirect<%s>' % p['names'][0]
        elif k == 'Y': ty = '&EntityAny'
        elif k == 'V': ty = '&EntityDirectAny'
        elif k == 'W': ty = '&Entity<_>'
        else: ty = '&EntityDirect<_>'
        params.append('%s_p%d: %s' % (attr, i, ty))
    out.append('    pub fn check() -> Vec<String> {')
    out.append('        let mut bad = Vec::new();')
    out.append('        let mut world = World%s::new();' % mod.capitalize())
    for a in world:
        out.append('        world.create::<%s>((%s,));' % (a['name'], ', '.join('%s(0)' % c for c in a['components'])))
    out.append('        let mut seen: Vec<u8> = Vec::new();')
    out.append('        ecs_iter!(world, |__who: &EntityAny, %s| { seen.push(__who.archetype_id()); });' % ', '.join(params))
    ids = {a['name']: i for i, a in enumerate(world)}
    want = sorted(ids[n] for n in expect_matched)
    out.append('        seen.sort();')
    out.append('        let want: Vec<u8> = vec![%s];' % ', '.join(str(w) for w in want))
    out.append('        if seen != want { bad.push(format!("%s: closure ran for archetypes {:?}, expected {:?}", seen, want)); }' % mod)
    out.append('        bad')
    out.append('    }')
    out.append('}')
    return '\n'.join(out)


CARGO = '''[package]
name = "e2_native"
version = "0.0.0"
edition = "2021"
publish = false

[dependencies]
gecs = { path = "%s" }

[workspace]

[lints.rust]
unexpected_cfgs = { level = "allow" }
'''


def _crate(name):
    root = os.path.join(common.scratch_root(), 'e2_native', name)
    os.makedirs(os.path.join(root, 'src'), exist_ok=True)
    with open(os.path.join(root, 'Cargo.toml'), 'w') as f:
        f.write(CARGO % common.REPO)
    lock = os.path.join(common.REPO, 'Cargo.lock')
    if os.path.exists(lock):
        shutil.copy(lock, os.path.join(root, 'Cargo.lock'))
    return root


def _cargo(root, args, timeout=900):
    env = common.base_env()
    env['CARGO_TARGET_DIR'] = os.path.join(common.scratch_root(), 'e2_native', 'target')
    env.pop('RUSTFLAGS', None)
    p = subprocess.run(['cargo'] + args + ['--offline', '--quiet'], cwd=root, env=env, capture_output=True, text=True, timeout=timeout)
    return p.returncode, p.stdout, p.stderr


def run_ok_modules(name, modules):
    """modules: list of module source texts each exposing `pub fn check() -> Vec<String>`.
    Returns (built: bool, complaints: [str], stderr tail)."""
    root = _crate(name)
    mods = [re.match(r'pub mod (\w+)', m).group(1) for m in modules]
    main = ['#![allow(unused)]'] + modules + ['fn main() {', '    let mut bad: Vec<String> = Vec::new();']
    for m in mods:
        main.append('    bad.extend(%s::check());' % m)
    main += ['    for b in &bad { println!("MISMATCH {}", b); }', '    println!("CHECKED %d");' % len(mods), '    if !bad.is_empty() { std::process::exit(1); }', '}']
    with open(os.path.join(root, 'src', 'main.rs'), 'w') as f:
        f.write('\n'.join(main))
    rc, out, err = _cargo(root, ['run'])
    built = 'CHECKED' in out
    complaints = [l[len('MISMATCH '):] for l in out.splitlines() if l.startswith('MISMATCH ')]
    return built, complaints, err[-1500:]


def expect_compile_error(name, module, needle):
    """The module must FAIL to compile with an error mentioning `needle`. Returns (failed_to_compile, has_needle, stderr tail)."""
    root = _crate(name)
    with open(os.path.join(root, 'src', 'main.rs'), 'w') as f:
        f.write('#![allow(unused)]\n' + module + '\nfn main() {}\n')
    rc, out, err = _cargo(root, ['build'])
    return rc != 0, (needle in err), err[-1500:]


def negative_module(mod, macro, kind):
    """A program that MUST be rejected at compile time: kind 'nomatch' (no archetype has both components)
    or 'ambiguous' (a OneOf matching two components of one archetype), through the given query macro."""
    params = {"nomatch": "_a: &T0, _b: &T2", "ambiguous": "_x: &OneOf<T0, T1>",
              # arity 3, the two members one archetype owns are NOT adjacent in the list (T2 belongs to the other archetype)
              "ambiguous3": "_x: &OneOf<T0, T2, T1>", "ambiguous3r": "_x: &OneOf<T1, T2, T0>",
              "ambiguous3p": "_y: &T0, _x: &OneOf<T1, T2, T0>"}[kind]
    out = ["pub mod %s {" % mod, "    #![allow(unused, dead_code)]", "    use gecs::prelude::*;",
           "    pub struct T0(pub u8); pub struct T1(pub u8); pub struct T2(pub u8);",
           "    ecs_world! {", "        ecs_name!(World%s);" % mod.capitalize(),
           "        ecs_archetype!(A0, T0, T1);", "        ecs_archetype!(A1, T2);", "    }",
           "    pub fn check() {", "        let mut world = World%s::new();" % mod.capitalize(),
           "        let e = world.create::<A0>((T0(0), T1(0)));"]
    if macro in ("ecs_find", "ecs_find_borrow"):
        out.append("        let _ = %s!(world, e, |%s| {});" % (macro, params))
    elif macro == "ecs_iter_destroy":
        out.append("        ecs_iter_destroy!(world, |%s| { EcsStepDestroy::Continue });" % params)
    else:
        out.append("        %s!(world, |%s| {});" % (macro, params))
    out += ["    }", "}"]
    return "\n".join(out)


def twin_pair(name, path):
    """A decorated program and its erased twin (both written out in `path`), through the REAL macros.
    Returns (status, detail): 'agree' | 'differ' | 'decorated-rejected' | 'infrastructure'."""
    src = open(path).read()
    root = _crate("twin_" + name)
    def build(main_body, mods):
        with open(os.path.join(root, 'src', 'main.rs'), 'w') as f:
            f.write('#![allow(unused)]\n' + mods + '\nfn main() {\n' + main_body + '\n}\n')
        return _cargo(root, ['run'])
    # the erased twin alone must build and run (otherwise the corpus itself is out of date: infrastructure)
    cut = src.index('pub mod decorated')
    cut2 = src.index('pub mod erased')
    erased_only = src[:cut] + src[cut2:]
    rc, out, err = build('    println!("E {:?}", erased::observe());', erased_only)
    if rc != 0 or 'E [' not in out:
        return 'infrastructure', 'the erased twin does not build/run: ' + err[-400:]
    rc, out, err = build('    println!("D {:?}", decorated::observe());\n    println!("E {:?}", erased::observe());', src)
    if rc != 0 and 'D [' not in out:
        errs = [l for l in err.splitlines() if l.startswith('error')]
        return 'decorated-rejected', 'the decorated program does not compile/run although its erased twin does: ' + ' | '.join(errs[:3])[:400] + ' ' + err[-200:].replace('\n', ' ')
    d = [l for l in out.splitlines() if l.startswith('D ')]
    e = [l for l in out.splitlines() if l.startswith('E ')]
    if not d or not e:
        return 'infrastructure', 'no output: ' + err[-300:]
    if d[0][2:] == e[0][2:]:
        return 'agree', d[0][2:]
    return 'differ', 'decorated program observes %s, its erased twin %s' % (d[0][2:], e[0][2:])


def admission_program(ln, cap):
    """A real program for one (len, capacity) of the admission kernel: an archetype of a zero-sized
    component built with_capacity(cap), filled to len through create_within_capacity, then one
    create_within_capacity and one create (under catch_unwind). Prints what happened."""
    return """#![allow(unused)]
use gecs::prelude::*;
pub struct Z;
ecs_world! { ecs_archetype!(ArchZ, Z); }
fn main() {
    std::panic::set_hook(Box::new(|_| {}));
    let cap: usize = %d; let len: usize = %d;
    let mut w = EcsWorld::with_capacity(EcsWorldCapacity { arch_z: cap });
    for _ in 0..len { assert!(w.create_within_capacity::<ArchZ>((Z,)).is_ok()); }
    let a = w.archetype::<ArchZ>();
    println!("STATE len={} cap={}", a.len(), a.capacity());
    let within_ok = w.create_within_capacity::<ArchZ>((Z,)).is_ok();
    if within_ok { let e = *w.archetype::<ArchZ>().entities().last().unwrap(); w.destroy(e); }
    let r = std::panic::catch_unwind(std::panic::AssertUnwindSafe(|| { w.create::<ArchZ>((Z,)); }));
    println!("RESULT within_ok={} create_panicked={} len_after={}", within_ok, r.is_err(), w.archetype::<ArchZ>().len());
    std::mem::forget(w);
}
""" % (cap, ln)


def run_admission(ln, cap):
    """Returns (ran: bool, deviations: [str], raw output). Specification: create_within_capacity is Ok iff
    len < capacity; create panics iff len == capacity == 2^24."""
    root = _crate("admission")
    with open(os.path.join(root, 'src', 'main.rs'), 'w') as f:
        f.write(admission_program(ln, cap))
    rc, out, err = _cargo(root, ['run', '--release'], timeout=1200)
    m = re.search(r'RESULT within_ok=(\w+) create_panicked=(\w+) len_after=(\d+)', out)
    st = re.search(r'STATE len=(\d+) cap=(\d+)', out)
    if not m or not st:
        return False, [], (out + err)[-600:]
    dev = []
    if int(st.group(1)) != ln or int(st.group(2)) != cap:
        return False, [], 'could not build the state len=%d capacity=%d through the public API: %s' % (ln, cap, st.group(0))
    if (m.group(1) == 'true') != (ln < cap):
        dev.append('create_within_capacity at len=%d capacity=%d returned %s' % (ln, cap, 'Ok' if m.group(1) == 'true' else 'Err'))
    must_panic = (ln == cap == (1 << 24))
    if (m.group(2) == 'true') != must_panic:
        dev.append('create at len=%d capacity=%d %s (limit is 16777216 entities)' % (ln, cap, 'panicked' if m.group(2) == 'true' else 'succeeded'))
    if m.group(2) == 'true' and int(m.group(3)) != ln:
        dev.append('a refused create changed len from %d to %s' % (ln, m.group(3)))
    return True, dev, out[-300:]
