"""Obligations on the compile-time data logic of gecs_macros, interpreted from its MIR."""
import copy, itertools, re, time
import z3
from .macrosym import (Struct, Enum, SymOpt, Ref, VecV, MapV, Opaque, Layout, explore, Unsupported)
from .smt import Obligation


def zsum(xs):
    """sum that prints portably: (+ x) with one child is rejected by cvc5"""
    xs = list(xs)
    if not xs:
        return z3.IntVal(0)
    if len(xs) == 1:
        return xs[0]
    return z3.Sum(xs)


def sym_opt(name):
    return SymOpt(z3.Bool(name + '_explicit'), z3.BitVec(name + '_id', 8))


def rule(ids, enabled):
    """The enum-discriminant rule over items (SymOpt explicit id, enabled flag):
    returns (ok, [id term per item]). Disabled items consume nothing."""
    ok = z3.BoolVal(True); last_some = z3.BoolVal(False); last = z3.BitVecVal(0, 8); out = []; used = []
    for o, en in zip(ids, enabled):
        nxt = z3.If(o.is_some, o.val, z3.If(last_some, last + 1, z3.BitVecVal(0, 8)))
        ovf = z3.And(z3.Not(o.is_some), last_some, last == 255)
        dup = z3.Or([z3.And(u_en, u == nxt) for u, u_en in used]) if used else z3.BoolVal(False)
        ok = z3.And(ok, z3.Or(z3.Not(en), z3.And(z3.Not(ovf), z3.Not(dup))))
        used.append((nxt, en)); out.append(nxt)
        last_some = z3.If(en, z3.BoolVal(True), last_some); last = z3.If(en, nxt, last)
    return ok, out


class Decl:
    """A symbolic ecs_world! declaration of k archetypes x c components.
    pred_of_arch[i] / pred_of_comp[i][j]: tuple of predicate indices attached to the item
    (conjunction), () = no cfg attribute. Predicates have symbolic truth values."""
    def __init__(self, k, c, pred_of_arch, pred_of_comp, n_pred):
        self.k, self.c = k, c
        self.A_ID = [sym_opt('a%d' % i) for i in range(k)]
        self.C_ID = [[sym_opt('a%dc%d' % (i, j)) for j in range(c)] for i in range(k)]
        self.P = [z3.Bool('cfg_pred%d' % p) for p in range(n_pred)]
        self.pred_of_arch, self.pred_of_comp = pred_of_arch, pred_of_comp

    def arch_enabled(self, i):
        return z3.And([self.P[p] for p in self.pred_of_arch[i]]) if self.pred_of_arch[i] else z3.BoolVal(True)

    def comp_enabled(self, i, j):
        return z3.And([self.P[p] for p in self.pred_of_comp[i][j]]) if self.pred_of_comp[i][j] else z3.BoolVal(True)

    def build(self, lay, only=None, strip=False, pred_vals=None):
        """Returns the ParseCfgDecorated<ParseEcsWorld> value. only = set of (i) / (i, j) items to keep
        (erased declaration); strip = drop all cfg attributes and use an empty lookup."""
        lookup = MapV()
        if not strip:
            for p, b in enumerate(self.P):
                lookup.items.append((z3.IntVal(5000 + p), [b]))
        archs = []
        for i in range(self.k):
            if only is not None and i not in only:
                continue
            cfgs = VecV([] if strip else [lay.mk('ParseAttributeCfg', predicate=z3.IntVal(5000 + p)) for p in self.pred_of_arch[i]])
            comps = []
            for j in range(self.c):
                if only is not None and (i, j) not in only:
                    continue
                ccfgs = VecV([] if strip else [lay.mk('ParseAttributeCfg', predicate=z3.IntVal(5000 + p)) for p in self.pred_of_comp[i][j]])
                comps.append(Struct('parse::world::ParseComponent', [None] * 3))
                comps[-1] = lay.mk('ParseComponent', cfgs=ccfgs, id=copy.copy(self.C_ID[i][j]), name=z3.IntVal(100 * i + j))
                comps[-1].name = 'parse::world::ParseComponent'
            a = lay.mk('ParseArchetype', cfgs=cfgs, id=copy.copy(self.A_ID[i]), name=z3.IntVal(1000 + i), components=VecV(comps))
            a.name = 'parse::world::ParseArchetype'
            archs.append(a)
        world = lay.mk('ParseEcsWorld', name=z3.IntVal(7), archetypes=VecV(archs))
        return lay.mk('ParseCfgDecorated', cfg_lookup=lookup, inner=world)


def new_fn(mir):
    return mir.find(lambda it: it.kind == 'fn' and it.name.endswith('::new') and 'ParseCfgDecorated<' in it.header and 'ParseEcsWorld' in it.header and 'DataWorld' in it.ret,
                    'DataWorld::new')


def _as_int(v):
    return z3.simplify(v).as_long()


def decode_world(lay, val):
    """DataWorld value -> [(arch_index, id term, [(comp_index, id term)])]"""
    out = []
    for a in lay.get(val, 'DataWorld', 'archetypes').fields:
        i = _as_int(lay.get(a, 'DataArchetype', 'name')) - 1000
        comps = []
        for cm in lay.get(a, 'DataArchetype', 'components').fields:
            comps.append((_as_int(lay.get(cm, 'DataComponent', 'name')) - 100 * i, lay.get(cm, 'DataComponent', 'id')))
        out.append((i, lay.get(a, 'DataArchetype', 'id'), comps))
    return out


def ids_obligations(mir, decl, tag):
    """C15: DataWorld::new follows the discriminant rule; Err iff duplicate / count past 255 among enabled items."""
    lay = Layout()
    fn = new_fn(mir)
    def harness(I):
        return I.exec_fn(fn, [decl.build(lay)])
    t0 = time.time()
    results, stats = explore(mir, lay, harness)
    a_en = [decl.arch_enabled(i) for i in range(decl.k)]
    ok_a, ids_a = rule(decl.A_ID, a_en)
    comp = [rule(decl.C_ID[i], [decl.comp_enabled(i, j) for j in range(decl.c)]) for i in range(decl.k)]
    comp_ok = z3.And([z3.Or(z3.Not(a_en[i]), comp[i][0]) for i in range(decl.k)])
    obs = []
    for n, (pc, (kind, val)) in enumerate(results):
        if kind == 'panic':
            claim = z3.BoolVal(False); what = 'panic path is infeasible (%s)' % val[:50]
        elif val.name == 'Err':
            claim = z3.Not(z3.And(ok_a, comp_ok)); what = 'Err only for a duplicate id or a count past 255 among enabled items'
        else:
            world = decode_world(lay, val.fields[0])
            claim = z3.And(ok_a, comp_ok)
            claim = z3.And(claim, zsum([z3.If(e, 1, 0) for e in a_en]) == len(world))
            prev = -1
            for (i, aid, comps) in world:
                claim = z3.And(claim, z3.BoolVal(i > prev), a_en[i], aid == ids_a[i]); prev = i
                claim = z3.And(claim, zsum([z3.If(decl.comp_enabled(i, j), 1, 0) for j in range(decl.c)]) == len(comps))
                pj = -1
                for (j, cid) in comps:
                    claim = z3.And(claim, z3.BoolVal(j > pj), decl.comp_enabled(i, j), cid == comp[i][1][j]); pj = j
            what = 'Ok: exactly the enabled items, in order, with ids = explicit | previous+1 | 0'
        obs.append(Obligation('%s path %d: %s' % (tag, n, what), pc, claim, {'kind': kind}))
    return obs, results, stats, time.time() - t0


def cfg_metamorphic_obligations(mir, decl, tag, max_cases=4096):
    """C16: for every truth assignment, DataWorld::new(decl, lookup) == DataWorld::new(decl with the
    false items erased and all cfg attributes stripped, empty lookup)."""
    lay = Layout()
    fn = new_fn(mir)
    obs = []
    stats_all = {'modelled': set(), 'interpreted': set(), 'solver_calls': 0, 'pruned': []}
    t0 = time.time()
    n_pred = len(decl.P)
    npaths = 0
    for bits in itertools.product([False, True], repeat=n_pred):
        assign = [p if b else z3.Not(p) for p, b in zip(decl.P, bits)]
        truth = dict(zip(range(n_pred), bits))
        keep = set()
        for i in range(decl.k):
            if all(truth[p] for p in decl.pred_of_arch[i]):
                keep.add(i)
                for j in range(decl.c):
                    if all(truth[p] for p in decl.pred_of_comp[i][j]):
                        keep.add((i, j))
        def run(make):
            def harness(I):
                I.run.pc = list(assign) + I.run.pc
                return I.exec_fn(fn, [make()])      # a fresh value per execution: the code drains its input
            return explore(mir, lay, harness)
        full, st1 = run(lambda: decl.build(lay))
        erased, st2 = run(lambda: decl.build(lay, only=keep, strip=True))
        for st in (st1, st2):
            stats_all['modelled'] |= st['modelled']; stats_all['interpreted'] |= st['interpreted']
            stats_all['solver_calls'] += st['solver_calls']; stats_all['pruned'].extend(st['pruned'])
        npaths += len(full) + len(erased)
        # for every path of the decorated declaration: under its path condition SOME path of the
        # erased declaration is taken too and produces the same outcome
        def agree(v1k, v2k):
            (k1, v1), (k2, v2) = v1k, v2k
            if k1 == 'panic' or k2 == 'panic' or v1.name != v2.name:
                return z3.BoolVal(False)
            if v1.name == 'Err':
                return z3.BoolVal(True)
            w1, w2 = decode_world(lay, v1.fields[0]), decode_world(lay, v2.fields[0])
            if [(i, [j for j, _ in cs]) for i, _, cs in w1] != [(i, [j for j, _ in cs]) for i, _, cs in w2]:
                return z3.BoolVal(False)
            eqs = []
            for (i, id1, c1), (_, id2, c2) in zip(w1, w2):
                eqs.append(id1 == id2)
                eqs += [x == y for (_, x), (_, y) in zip(c1, c2)]
            return z3.And(eqs) if eqs else z3.BoolVal(True)
        for a, (pc1, out1) in enumerate(full):
            disj = [z3.And(list(pc2) + [agree(out1, out2)]) for pc2, out2 in erased]
            claim = z3.Or(disj) if len(disj) > 1 else (disj[0] if disj else z3.BoolVal(False))
            obs.append(Obligation('%s assignment %s: declaration path %d has the outcome of the erased declaration' % (tag, ''.join('T' if b else 'F' for b in bits), a), pc1, claim))
    return obs, npaths, stats_all, time.time() - t0


# ----------------------------------------------------------------------------------------------
# bind_query_params

KINDS = {
    'C': 'Component', 'O': 'OneOf', 'P': 'OneOf', 'E': 'Entity', 'D': 'EntityDirect', 'Y': 'EntityAny', 'V': 'EntityDirectAny',
    'W': 'EntityWild', 'X': 'EntityDirectWild',
}
# O = OneOf of 2 types, P = OneOf of 3 types


class Query:
    def __init__(self, A, C, shape, oneof_cfg=False):
        self.A, self.C, self.kinds = A, C, list(shape)
        n = len(self.kinds)
        self.HAS = [[z3.Bool('has_%d_%d' % (a, j)) for j in range(C)] for a in range(A)]
        self.NAME = [[z3.Int('p%d_name%d' % (k, t)) for t in range(3)] for k in range(n)]
        self.EN = [z3.Bool('p%d_cfg_enabled' % k) for k in range(n)]
        self.oneof_cfg = oneof_cfg
        self.assume = []
        for k, kd in enumerate(self.kinds):
            ar = {'C': 1, 'O': 2, 'P': 3}.get(kd, 0)
            for t in range(ar):
                self.assume += [self.NAME[k][t] >= 0, self.NAME[k][t] < C]
            for t in range(ar):
                for u in range(t):
                    self.assume.append(self.NAME[k][t] != self.NAME[k][u])
            if kd in 'ED':
                self.assume.append(z3.Or([self.NAME[k][0] == 1000 + a for a in range(A)] + [self.NAME[k][0] == 1999]))
            if kd in 'OPYVWX':
                self.assume.append(self.EN[k])     # cfg on these kinds: not supported (OneOf) / always kept

    def world(self, lay):
        archs = []
        for a in range(self.A):
            comps = VecV([lay.mk('DataComponent', id=z3.BitVecVal(j, 8), name=z3.If(self.HAS[a][j], z3.IntVal(j), z3.IntVal(100 + 10 * a + j))) for j in range(self.C)])
            archs.append(lay.mk('DataArchetype', id=z3.BitVecVal(a, 8), name=z3.IntVal(1000 + a), components=comps))
        return lay.mk('DataWorld', name=z3.IntVal(7), archetypes=VecV(archs))

    def params(self, lay, skip=()):
        ps = []
        for k, kd in enumerate(self.kinds):
            if k in skip:
                continue
            if kd == 'C': ty = Enum('Component', [self.NAME[k][0]])
            elif kd in 'OP':
                ar = 2 if kd == 'O' else 3
                ty = Enum('OneOf', [Struct('Box', [Struct('Unique', [Ref([VecV([self.NAME[k][t] for t in range(ar)])])])])])
            elif kd == 'E': ty = Enum('Entity', [self.NAME[k][0]])
            elif kd == 'D': ty = Enum('EntityDirect', [self.NAME[k][0]])
            else: ty = Enum(KINDS[kd], [])
            cfgs = VecV([lay.mk('ParseAttributeCfg', predicate=z3.IntVal(5000 + k))] if (kd in 'OP' and self.oneof_cfg) else [])
            ps.append(lay.mk('ParseQueryParam', cfgs=cfgs, name=z3.IntVal(500 + k), is_mut=z3.BoolVal(False), param_type=ty, is_cfg_enabled=self.EN[k]))
        return VecV(ps)

    def has_name(self, a, n):
        return z3.Or([z3.And(self.HAS[a][j], n == j) for j in range(self.C)])

    def spec(self, skip=()):
        keep = []; err = z3.BoolVal(False); found = {}
        for a in range(self.A):
            conds = []
            for k, kd in enumerate(self.kinds):
                if k in skip:
                    continue
                if kd == 'C':
                    conds.append(z3.Or(z3.Not(self.EN[k]), self.has_name(a, self.NAME[k][0])))
                elif kd in 'ED':
                    conds.append(z3.Or(z3.Not(self.EN[k]), self.NAME[k][0] == 1000 + a))
                elif kd in 'OP':
                    ar = 2 if kd == 'O' else 3
                    hs = [self.has_name(a, self.NAME[k][t]) for t in range(ar)]
                    cnt = zsum([z3.If(h, 1, 0) for h in hs])
                    err = z3.Or(err, cnt >= 2)
                    conds.append(cnt == 1)
                    f = self.NAME[k][ar - 1]
                    for t in reversed(range(ar - 1)):
                        f = z3.If(hs[t], self.NAME[k][t], f)
                    found[(a, k)] = f
                else:
                    conds.append(z3.BoolVal(True))
            keep.append(z3.And(conds) if conds else z3.BoolVal(True))
        if self.oneof_cfg and any(kd in 'OP' for kd in self.kinds) and self.A > 0:
            err = z3.BoolVal(True)
        return keep, err, found


def bind_fn(mir):
    return mir.find(lambda it: it.kind == 'fn' and it.name.endswith('bind_query_params'), 'bind_query_params')


def decode_bound(lay, val):
    """Ok(HashMap) -> {arch index: [bound ParseQueryParam]}"""
    out = {}
    for kname, bound in val.items:
        out[_as_int(kname) - 1000] = bound.fields
    return out


def bind_obligations(mir, q, tag):
    """C05: bind_query_params keeps exactly the archetypes satisfying the parameter list and binds each OneOf to its unique present member."""
    lay = Layout()
    fn = bind_fn(mir)
    def harness(I):
        I.run.pc = list(q.assume) + I.run.pc
        return I.exec_fn(fn, [Ref([q.world(lay)]), Ref([q.params(lay)])])
    t0 = time.time()
    results, stats = explore(mir, lay, harness)
    keep, err, found = q.spec()
    obs = []
    nk = len(q.kinds)
    ti = lay.lay['ParseQueryParam'].index('param_type')
    for n, (pc, (kind, val)) in enumerate(results):
        if kind == 'panic':
            claim = z3.BoolVal(False); what = 'panic path is infeasible (%s)' % val[:50]
        elif val.name == 'Err':
            claim = err; what = 'Err only when some archetype has a OneOf with >= 2 present members (or a cfg on a OneOf)'
        else:
            m = decode_bound(lay, val.fields[0])
            claim = z3.Not(err)
            for a in range(q.A):
                claim = z3.And(claim, keep[a] if a in m else z3.Not(keep[a]))
            for a, bound in m.items():
                claim = z3.And(claim, z3.BoolVal(len(bound) == nk))
                if len(bound) != nk:
                    continue
                for k, kd in enumerate(q.kinds):
                    bt = bound[k].fields[ti]
                    if kd in 'OP':
                        claim = z3.And(claim, z3.BoolVal(bt.name == 'Component'), bt.fields[0] == found[(a, k)] if bt.name == 'Component' else z3.BoolVal(False))
                    else:
                        claim = z3.And(claim, z3.BoolVal(bt.name == KINDS[kd]))
                        if kd in 'CED' and bt.name == KINDS[kd]:
                            claim = z3.And(claim, bt.fields[0] == q.NAME[k][0])
            what = 'Ok: kept archetypes == those satisfying every parameter; OneOf bound to its unique present member'
        obs.append(Obligation('%s path %d: %s' % (tag, n, what), pc, claim, {'kind': kind}))
    return obs, results, stats, time.time() - t0


def param_cfg_obligations(mir, n, tag):
    """C05/C16: is_cfg_enabled(param, lookup) for a query parameter carrying n stacked #[cfg] attributes is
    the CONJUNCTION of the looked-up truth values (rustc removes the parameter unless all hold)."""
    lay = Layout()
    fn = mir.find(lambda it: it.kind == 'fn' and it.name.endswith('is_cfg_enabled') and 'ParseQueryParam' in it.header, 'is_cfg_enabled')
    P = [z3.Bool('qcfg_pred%d' % p) for p in range(n)]
    def harness(I):
        lookup = MapV()
        for p, b in enumerate(P):
            lookup.items.append((z3.IntVal(5000 + p), [b]))
        cfgs = VecV([lay.mk('ParseAttributeCfg', predicate=z3.IntVal(5000 + p)) for p in range(n)])
        param = lay.mk('ParseQueryParam', cfgs=cfgs, name=z3.IntVal(500), is_mut=z3.BoolVal(False), param_type=Enum('EntityAny', []), is_cfg_enabled=z3.BoolVal(True))
        return I.exec_fn(fn, [Ref([param]), Ref([lookup])])
    t0 = time.time()
    results, stats = explore(mir, lay, harness)
    want = z3.And(P) if P else z3.BoolVal(True)
    obs = []
    for k, (pc, (kind, val)) in enumerate(results):
        if kind == 'panic':
            claim = z3.BoolVal(False); what = 'panic path is infeasible (%s)' % str(val)[:50]
        else:
            got = val if z3.is_expr(val) else z3.BoolVal(bool(val))
            claim = got == want; what = 'enabled == conjunction of the %d stacked predicates' % n
        obs.append(Obligation('%s path %d: %s' % (tag, k, what), pc, claim, {'kind': kind}))
    return obs, results, stats, time.time() - t0


def bind_cfg_metamorphic(mir, q, tag):
    """C16: a parameter whose cfg is disabled behaves as if it had not been written: the query keeps
    exactly the archetypes the erased query keeps; an enabled one behaves as an unannotated one."""
    lay = Layout()
    fn = bind_fn(mir)
    obs = []
    t0 = time.time()
    stats_all = {'modelled': set(), 'interpreted': set(), 'solver_calls': 0, 'pruned': []}
    npaths = 0
    cfgable = [k for k, kd in enumerate(q.kinds) if kd in 'CED']
    for bits in itertools.product([False, True], repeat=len(cfgable)):
        assign = [q.EN[k] if b else z3.Not(q.EN[k]) for k, b in zip(cfgable, bits)]
        skip = tuple(k for k, b in zip(cfgable, bits) if not b)
        def run(make):
            def harness(I):
                I.run.pc = list(q.assume) + list(assign) + I.run.pc
                return I.exec_fn(fn, [Ref([q.world(lay)]), Ref([make()])])
            return explore(mir, lay, harness)
        full, st1 = run(lambda: q.params(lay))
        # erased query: disabled parameters removed, remaining ones "unannotated" (flag true)
        erased, st2 = run(lambda: q.params(lay, skip=skip))
        for st in (st1, st2):
            stats_all['modelled'] |= st['modelled']; stats_all['interpreted'] |= st['interpreted']
            stats_all['solver_calls'] += st['solver_calls']; stats_all['pruned'].extend(st['pruned'])
        npaths += len(full) + len(erased)
        def agree(o1, o2):
            (k1, v1), (k2, v2) = o1, o2
            if k1 == 'panic' or k2 == 'panic' or v1.name != v2.name:
                return z3.BoolVal(False)
            if v1.name == 'Err':
                return z3.BoolVal(True)
            m1, m2 = decode_bound(lay, v1.fields[0]), decode_bound(lay, v2.fields[0])
            return z3.BoolVal(set(m1) == set(m2))
        for a, (pc1, out1) in enumerate(full):
            disj = [z3.And(list(pc2) + [agree(out1, out2)]) for pc2, out2 in erased]
            claim = z3.Or(disj) if len(disj) > 1 else (disj[0] if disj else z3.BoolVal(False))
            obs.append(Obligation('%s enabled=%s: query path %d keeps the archetypes the erased query keeps' % (tag, ''.join('T' if b else 'F' for b in bits), a), pc1, claim))
    return obs, npaths, stats_all, time.time() - t0
