"""Symbolic interpreter for loop-free integer kernels of the gecs crate (MIR text -> z3 terms).
Values have concrete structure (Struct / Enum with positional fields) and symbolic bit-vector
leaves of the Rust width (wrapping semantics). Anything not recognised raises Unsupported: the
caller turns that into 'inconclusive', never into a verdict."""
import re
import z3
from .mir import split_top, MirError

INT_BITS = {'u8': 8, 'u16': 16, 'u32': 32, 'u64': 64, 'usize': 64, 'i8': 8, 'i16': 16, 'i32': 32, 'i64': 64, 'isize': 64, 'u128': 128}
STD_CONSTS = {'core::num::<impl u8>::BITS': (8, 32), 'core::num::<impl u32>::BITS': (32, 32), 'core::num::<impl usize>::MAX': (2 ** 64 - 1, 64),
              'core::num::<impl u32>::MAX': (2 ** 32 - 1, 32), 'core::num::<impl isize>::MAX': (2 ** 63 - 1, 64)}
DISCR = {'None': 0, 'Some': 1, 'Ok': 0, 'Err': 1, 'Continue': 0, 'Break': 1}


class Unsupported(Exception):
    pass


class Panic(Exception):
    def __init__(self, msg):
        self.msg = msg


class Stop(Exception):
    """Raised by a 'stop callee' hook: the path ends here and yields the callee's arguments."""
    def __init__(self, callee, args):
        self.callee, self.args = callee, args


class Enum:
    def __init__(self, variant, fields):
        self.variant, self.fields = variant, list(fields)

    def __repr__(self):
        return '%s%s' % (self.variant, self.fields)


class Struct:
    def __init__(self, name, fields):
        self.name, self.fields = name, list(fields)

    def __repr__(self):
        return '%s%s' % (self.name.split('::')[-1], self.fields)


class Ref:
    def __init__(self, cell):
        self.cell = cell


class Str:
    def __init__(self, s):
        self.s = s

    def __repr__(self):
        return self.s


def add_ok(a, b):
    """unsigned a + b does not wrap (plain bit-vector terms: portable across solvers)"""
    return z3.UGE(a + b, a)


def mul_ok(a, b):
    """unsigned a * b does not wrap"""
    w = a.size()
    return z3.ULE(z3.ZeroExt(w, a) * z3.ZeroExt(w, b), z3.ZeroExt(w, z3.BitVecVal(2 ** w - 1, w)))


def nonzero(bv):
    return Struct('NonZero', [bv])


class Kernel:
    def __init__(self, mir, generic_consts=None, stop_callees=(), extern=None):
        self.mir = mir
        self.generic_consts = generic_consts or {}
        self.stop_callees = tuple(stop_callees)
        self.extern = extern or {}          # callee regex -> python function(args) -> value
        self.obligations = []               # (pc, bool, msg): must hold on every path reaching it
        self.panics = []                    # (pc, msg)
        self.stops = []                     # (pc, callee, args)
        self.const_cache = {}
        self.interpreted = set()
        self.modelled = set()
        self.solver_calls = 0
        self.stores_through_self = []       # (pc, statement) assignments through (*_1) — used by path facts

    # ------------------------------------------------------------------ helpers
    def feasible(self, pc, extra=()):
        s = z3.Solver()
        s.add(*pc)
        s.add(*extra)
        self.solver_calls += 1
        return s.check() != z3.unsat

    def const(self, txt):
        txt = txt.strip()
        m = re.match(r'(-?\d+)_([iu]\d+|usize|isize)$', txt)
        if m:
            return z3.BitVecVal(int(m.group(1)), INT_BITS[m.group(2)])
        if txt in ('true', 'false'):
            return z3.BoolVal(txt == 'true')
        if txt in self.generic_consts:
            return self.generic_consts[txt]
        if txt in STD_CONSTS:
            v, b = STD_CONSTS[txt]
            return z3.BitVecVal(v, b)
        if txt.startswith('"'):
            return Str(txt)
        if re.search(r'NonZero::<u32>::MIN$', txt):
            return nonzero(z3.BitVecVal(1, 32))
        if txt.startswith('ZeroSized') or txt == '()':
            return Struct('ZST', [])
        m = re.match(r'\{transmute\((0x[0-9a-f]+)\): (.+)\}$', txt)
        if m:
            ty = m.group(2)
            val = int(m.group(1), 16)
            if 'NonZero<u32>' in ty:
                return nonzero(z3.BitVecVal(val, 32))
            raise Unsupported('transmute const ' + txt)
        seg = txt.split('::')[-1]
        if txt in self.const_cache:
            return self.const_cache[txt]
        cands = [it for it in self.mir.items if it.kind == 'const' and (it.name == txt or it.name == seg or it.name.endswith('::' + seg))]
        if not cands:
            raise Unsupported('const ' + txt)
        outs = self.run(cands[0], [], [])
        if len(outs) != 1:
            raise Unsupported('const with %d paths: %s' % (len(outs), txt))
        v = outs[0][1]
        if z3.is_expr(v):
            v = z3.simplify(v)
        self.const_cache[txt] = v
        return v

    def place_get(self, txt, env):
        txt = txt.strip()
        if txt.startswith('(') and txt.endswith(')'):
            inner = txt[1:-1]
            m = re.match(r'(.+)\.(\d+): .+$', inner)
            if m:
                base = self.place_get(m.group(1), env)
                if isinstance(base, (Struct, Enum)):
                    return base.fields[int(m.group(2))]
                raise Unsupported('field of non-aggregate: ' + txt)
            m = re.match(r'(.+) as (\w+)$', inner)
            if m:
                return self.place_get(m.group(1), env)
            if inner.startswith('*'):
                return self.place_get(inner[1:], env).cell[0]
            raise Unsupported('place ' + txt)
        if txt.startswith('*'):
            return self.place_get(txt[1:], env).cell[0]
        if txt not in env:
            raise Unsupported('unset local ' + txt)
        return env[txt]

    def place_set(self, txt, env, val, pc, st):
        txt = txt.strip()
        if re.match(r'_\d+$', txt):
            env[txt] = val
            return
        if txt.startswith('(') and txt.endswith(')'):
            inner = txt[1:-1]
            m = re.match(r'(.+)\.(\d+): .+$', inner)
            if m:
                base_txt = m.group(1)
                if '*_1' in base_txt:
                    self.stores_through_self.append((list(pc), st))
                base = self.place_get(base_txt, env)
                if isinstance(base, (Struct, Enum)):
                    while len(base.fields) <= int(m.group(2)):
                        base.fields.append(None)
                    base.fields[int(m.group(2))] = val
                    return
        if txt.startswith('(*') or txt.startswith('*'):
            t = txt.strip('()')
            r = self.place_get(t[1:], env)
            r.cell[0] = val
            return
        raise Unsupported('store to ' + txt)

    def operand(self, txt, env):
        txt = txt.strip()
        for pre in ('copy ', 'move '):
            if txt.startswith(pre):
                return self.place_get(txt[len(pre):], env)
        if txt.startswith('const '):
            return self.const(txt[6:])
        raise Unsupported('operand ' + txt)

    BIN = {'Lt': z3.ULT, 'Le': z3.ULE, 'Gt': z3.UGT, 'Ge': z3.UGE,
           'Eq': lambda a, b: a == b, 'Ne': lambda a, b: a != b,
           'BitOr': lambda a, b: a | b, 'BitAnd': lambda a, b: a & b, 'BitXor': lambda a, b: a ^ b,
           'Add': lambda a, b: a + b, 'Sub': lambda a, b: a - b, 'Mul': lambda a, b: a * b,
           'AddUnchecked': lambda a, b: a + b, 'SubUnchecked': lambda a, b: a - b,
           'Div': z3.UDiv, 'Rem': z3.URem}

    def rvalue(self, txt, env):
        txt = txt.strip()
        m = re.match(r'(\w+)\((.*)\)$', txt)
        if m and m.group(1) in self.BIN:
            a, b = [self.operand(x, env) for x in split_top(m.group(2))]
            if z3.is_bool(a) and m.group(1) in ('BitAnd', 'BitOr', 'BitXor'):
                return {'BitAnd': z3.And, 'BitOr': z3.Or, 'BitXor': z3.Xor}[m.group(1)](a, b)
            return self.BIN[m.group(1)](a, b)
        if m and m.group(1) in ('Shl', 'Shr', 'ShlUnchecked', 'ShrUnchecked'):
            a, b = [self.operand(x, env) for x in split_top(m.group(2))]
            if b.size() != a.size():
                b = z3.ZeroExt(a.size() - b.size(), b) if b.size() < a.size() else z3.Extract(a.size() - 1, 0, b)
            b = b & z3.BitVecVal(a.size() - 1, a.size())     # Rust masks the shift amount when overflow checks pass
            return a << b if m.group(1).startswith('Shl') else z3.LShR(a, b)
        if m and m.group(1) in ('AddWithOverflow', 'SubWithOverflow', 'MulWithOverflow'):
            a, b = [self.operand(x, env) for x in split_top(m.group(2))]
            if m.group(1) == 'AddWithOverflow':
                return Struct('tuple', [a + b, z3.Not(add_ok(a, b))])
            if m.group(1) == 'SubWithOverflow':
                return Struct('tuple', [a - b, z3.ULT(a, b)])
            return Struct('tuple', [a * b, z3.Not(mul_ok(a, b))])
        if m and m.group(1) == 'Not':
            a = self.operand(m.group(2), env)
            return z3.Not(a) if z3.is_bool(a) else ~a
        m = re.match(r'(.+) as (\w+) \(IntToInt\)$', txt)
        if m:
            v = self.operand(m.group(1), env)
            w = INT_BITS[m.group(2)]
            if z3.is_bool(v):
                return z3.If(v, z3.BitVecVal(1, w), z3.BitVecVal(0, w))
            if w < v.size():
                return z3.Extract(w - 1, 0, v)
            if w > v.size():
                return z3.ZeroExt(w - v.size(), v)
            return v
        m = re.match(r'(.+) as .+ \((Transmute|PtrToPtr|MutToConstPointer)\)$', txt)
        if m:
            return self.operand(m.group(1), env)
        m = re.match(r'discriminant\((.+)\)$', txt)
        if m:
            v = self.place_get(m.group(1), env)
            if not isinstance(v, Enum) or v.variant not in DISCR:
                raise Unsupported('discriminant of ' + repr(v))
            return z3.BitVecVal(DISCR[v.variant], 64)
        if txt.startswith('&'):
            t = re.sub(r'^&(mut |raw (const|mut) )?', '', txt).strip()
            if t.startswith('(*') and t.endswith(')') and re.match(r'\(\*_\d+\)$', t):
                return self.place_get(t[2:-1], env)      # reborrow
            return Ref([self.place_get(t, env)])
        if txt.startswith(('copy ', 'move ', 'const ')):
            return self.operand(txt, env)
        m = re.match(r'([\w:<>, \']+?)::(None|Some|Ok|Err)(\((.*)\))?$', txt)
        if m:
            args = [self.operand(x, env) for x in split_top(m.group(4))] if m.group(4) else []
            return Enum(m.group(2), args)
        m = re.match(r'([\w:<>, \']+?) \{ (.*) \}$', txt)
        if m:
            fs = [self.operand(x.split(': ', 1)[1], env) for x in split_top(m.group(2))]
            return Struct(m.group(1), fs)
        m = re.match(r'([\w:<>]+)\((.*)\)$', txt)
        if m:
            return Struct(m.group(1), [self.operand(x, env) for x in split_top(m.group(2))])
        m = re.match(r'\((.*)\)$', txt)
        if m:
            return Struct('tuple', [self.operand(x, env) for x in split_top(m.group(1))])
        if re.match(r'[\w:<>]+$', txt):
            return Enum(txt.split('::')[-1], [])
        raise Unsupported('rvalue ' + txt)

    # ------------------------------------------------------------------ calls
    def call(self, callee, args, pc):
        """returns list of (pc_extra, value); raises Panic on a definite panic"""
        c = callee
        for pat in self.stop_callees:
            if re.search(pat, c):
                raise Stop(c, args)
        for pat, fn in self.extern.items():
            if re.search(pat, c):
                self.modelled.add(c)
                return [([], fn(args))]
        M = self.modelled.add
        if c == '<u8 as Into<u32>>::into' or c == '<u32 as From<u8>>::from':
            M(c); return [([], z3.ZeroExt(24, args[0]))]
        if c in ('<u32 as Into<u64>>::into', '<u64 as From<u32>>::from'):
            M(c); return [([], z3.ZeroExt(32, args[0]))]
        if re.match(r'<u32 as TryInto<usize>>::try_into$', c) or re.match(r'<usize as TryFrom<u32>>::try_from$', c):
            M(c); return [([], Enum('Ok', [z3.ZeroExt(32, args[0])]))]
        if c.endswith('unwrap_unchecked'):
            M(c)
            v = args[0]
            self.obligations.append((list(pc), z3.BoolVal(v.variant in ('Some', 'Ok')), 'unwrap_unchecked on None/Err is undefined behaviour'))
            return [([], v.fields[0])] if v.variant in ('Some', 'Ok') else []
        if re.search(r'unreachable_unchecked$', c):
            M(c)
            self.obligations.append((list(pc), z3.BoolVal(False), 'unreachable_unchecked reached: undefined behaviour'))
            return []
        if c.endswith('::checked_add') and 'NonZero' in c:
            M(c)
            a = args[0].fields[0]
            ok = add_ok(a, args[1])
            return [([ok], Enum('Some', [nonzero(a + args[1])])), ([z3.Not(ok)], Enum('None', []))]
        if re.search(r'<impl u32>::wrapping_add$', c) or re.search(r'<impl usize>::wrapping_add$', c):
            M(c); return [([], args[0] + args[1])]
        if re.search(r'<impl usize>::saturating_add$', c):
            M(c)
            a, b = args
            return [([], z3.If(add_ok(a, b), a + b, z3.BitVecVal(2 ** 64 - 1, 64)))]
        if re.search(r'<impl usize>::saturating_mul$', c):
            M(c)
            a, b = args
            return [([], z3.If(mul_ok(a, b), a * b, z3.BitVecVal(2 ** 64 - 1, 64)))]
        if re.search(r'(<usize as Ord>::min|std::cmp::min::<usize>|cmp::Ord::min)$', c) or c.endswith('Ord>::min'):
            M(c)
            a, b = args
            return [([], z3.If(z3.ULE(a, b), a, b))]
        if re.search(r'Option::<.*>::(expect|unwrap)$', c) or re.search(r'Result::<.*>::(expect|unwrap)$', c):
            M(c)
            v = args[0]
            if v.variant in ('Some', 'Ok'):
                return [([], v.fields[0])]
            raise Panic(str(args[1]) if len(args) > 1 else 'called unwrap() on None/Err')
        if re.search(r'Option::<.*>::unwrap_or$', c):
            M(c)
            v = args[0]
            return [([], v.fields[0] if v.variant == 'Some' else args[1])]
        if re.search(r'Option::<.*>::ok_or::<', c):
            M(c)
            v = args[0]
            return [([], Enum('Ok', [v.fields[0]]) if v.variant == 'Some' else Enum('Err', [args[1]]))]
        if re.search(r'as (std::ops::)?Try>::branch$', c):
            M(c)
            v = args[0]
            if v.variant in ('Ok', 'Some'):
                return [([], Enum('Continue', [v.fields[0]]))]
            return [([], Enum('Break', [Enum(v.variant, list(v.fields))]))]
        if re.search(r'as FromResidual<.*>>::from_residual$', c):
            M(c)
            v = args[0]
            return [([], Enum(v.variant, list(v.fields)))]
        if c.startswith('core::panicking::panic') or c.startswith('std::rt::panic') or 'panic_fmt' in c or c.startswith('panic_cold'):
            raise Panic(str(args[0]) if args else c)
        if c == 'NonZero::<u32>::new':
            M(c)
            nz = args[0] != 0
            return [([nz], Enum('Some', [nonzero(args[0])])), ([z3.Not(nz)], Enum('None', []))]
        if c == 'NonZero::<u32>::get':
            M(c); return [([], args[0].fields[0])]
        if re.search(r'(Arguments::<.*>::(new|from_str)|Argument::<.*>::new_|fmt::rt::)', c):
            M(c); return [([], args[0] if (args and isinstance(args[0], Str) and c.endswith('from_str')) else Str('fmt'))]
        # crate-local function with a body
        cands = [it for it in self.mir.items if it.kind == 'fn' and self.match_callee(it, c, args)]
        if cands:
            return self.run(cands[0], args, pc)
        raise Unsupported('callee ' + c)

    def match_callee(self, it, c, args):
        last = re.sub(r'::<.*>$', '', c).split('::')[-1]
        m = re.match(r'<(.+) as (Into|From)<(.+)>>::(into|from)$', c)
        if m:
            x, y = (m.group(1), m.group(3)) if m.group(2) == 'Into' else (m.group(3), m.group(1))
            def norm(t):
                return t.split('::')[-1]
            return it.name.endswith('::from') and len(it.params) == 1 and norm(it.params[0].split(': ', 1)[1]) == norm(x) and norm(it.ret) == norm(y)
        if not it.name.endswith('::' + last):
            return False
        if len(it.params) != len(args):
            return False
        m = re.match(r'<(.+) as .+>::\w+$', c)
        if m:
            ty = m.group(1).split('::')[-1].split('<')[0]
        else:
            parts = re.sub(r'::<.*>$', '', c).split('::')
            ty = parts[-2].split('<')[0] if len(parts) >= 2 else ''
        if not ty or ty[0].islower():
            return True     # free function in a module: matched by name and arity
        return any(re.search(r'\b' + re.escape(ty) + r'\b', p) for p in it.params) or re.search(r'\b' + re.escape(ty) + r'\b', it.ret) is not None

    # ------------------------------------------------------------------ execution
    def run(self, it, args, pc):
        self.interpreted.add(it.name)
        env = {}
        for p, a in zip(it.params, args):
            env[p.split(': ')[0]] = a
        results = []
        self._exec(it, 'bb0', env, list(pc), results, 0)
        return results

    def _exec(self, it, bb, env, pc, results, depth):
        if depth > 400:
            raise Unsupported('loop or very long path in ' + it.name)
        for st in it.blocks[bb]:
            if st.startswith(('StorageLive', 'StorageDead', 'debug ', 'scope', 'nop', 'Retag', 'FakeRead', 'PlaceMention', 'ConstEvalCounter', 'Coverage')):
                continue
            if st == 'return':
                results.append((pc, env.get('_0', Struct('tuple', []))))
                return
            if st == 'unreachable':
                return
            m = re.match(r'goto -> (bb\d+)$', st)
            if m:
                return self._exec(it, m.group(1), env, pc, results, depth + 1)
            m = re.match(r'drop\(.*\) -> \[return: (bb\d+),', st)
            if m:
                return self._exec(it, m.group(1), env, pc, results, depth + 1)
            m = re.match(r'switchInt\((.+?)\) -> \[(.+)\]$', st)
            if m:
                v = self.operand(m.group(1), env)
                targets = [t.strip().split(': ') for t in m.group(2).split(',')]
                taken = []
                for k, t in targets:
                    if k == 'otherwise':
                        cond = z3.And([z3.Not(c) for c in taken]) if taken else z3.BoolVal(True)
                    else:
                        if z3.is_bool(v):
                            cond = v if k != '0' else z3.Not(v)
                        else:
                            cond = (v == z3.BitVecVal(int(k), v.size()))
                        taken.append(cond)
                    sc = z3.simplify(cond)
                    if z3.is_false(sc):
                        continue
                    if z3.is_true(sc) or self.feasible(pc, [cond]):
                        self._exec(it, t, self._fork(env), pc + ([] if z3.is_true(sc) else [cond]), results, depth + 1)
                return
            m = re.match(r'assert\((.+?), "(.*)"(, .+)?\) -> \[success: (bb\d+), unwind.*\]$', st)
            if m:
                c = m.group(1).strip()
                neg = c.startswith('!')
                v = self.operand(c[1:] if neg else c, env)
                if neg:
                    v = z3.Not(v)
                self.obligations.append((list(pc), v, 'MIR assert: ' + m.group(2)))
                return self._exec(it, m.group(4), env, pc + [v], results, depth + 1)
            m = re.match(r'(_\d+|\(.+?\)) = (.+?)\((.*)\) -> (\[return: (bb\d+), unwind.*\]|unwind .*|bb\d+)$', st)
            if m and not re.match(r'(Lt|Le|Gt|Ge|Eq|Ne|Div|Rem|Shl|Shr|ShlUnchecked|ShrUnchecked|BitOr|BitAnd|BitXor|Add|Sub|Mul|AddUnchecked|SubUnchecked|AddWithOverflow|SubWithOverflow|MulWithOverflow|discriminant|Not)$', m.group(2)):
                args = [self.operand(x, env) for x in split_top(m.group(3))]
                try:
                    outs = self.call(m.group(2), args, pc)
                except Panic as p:
                    self.panics.append((list(pc), p.msg))
                    return
                except Stop as s:
                    self.stops.append((list(pc), s.callee, s.args))
                    return
                for extra, val in outs:
                    extra = [e for e in extra if not z3.is_true(z3.simplify(e))]
                    if extra and not self.feasible(pc, extra):
                        continue
                    e2 = self._fork(env)
                    self.place_set(m.group(1), e2, val, pc, st)
                    if m.group(5):
                        self._exec(it, m.group(5), e2, pc + list(extra), results, depth + 1)
                return
            m = re.match(r'(_\d+|\(.+\)) = (.+)$', st)
            if m:
                self.place_set(m.group(1), env, self.rvalue(m.group(2), env), pc, st)
                continue
            raise Unsupported('%s: %s' % (it.name, st))
        raise Unsupported('%s: fell off %s' % (it.name, bb))

    def _fork(self, env):
        # values are immutable except Struct fields written through place_set / Ref cells: deep-copy those
        import copy
        return copy.deepcopy(env)
