"""Symbolic interpreter for the compile-time data logic of gecs_macros (MIR text -> z3):
`DataWorld::new` + `advance_attribute_id` + `evaluate_cfgs` (C15/C16) and `bind_query_params` +
`bind_one_of` + `DataArchetype::contains_component` (C05/C16).

Values have concrete structure and symbolic leaves; places are (cell, path); references are
Ref(cell, path); forking is by re-execution with a decision prefix; pure bool callees are
summarised into one formula. Containers (Vec, HashMap, iterators, Option/Result plumbing,
String/Ident) are MODELLED — the list of modelled callees is part of the evidence; every callee
that has a body in the dump is INTERPRETED. Anything unknown raises Unsupported (inconclusive)."""
import copy, os, re, time
import z3
from .mir import split_top, MirError, norm
from .. import common


class Unsupported(Exception):
    pass


class PanicPath(Exception):
    pass


class Struct:
    def __init__(s, name, fields):
        s.name, s.fields = name, list(fields)

    def __repr__(s):
        return '%s%s' % (s.name.split('::')[-1], s.fields)


class Enum(Struct):
    pass


class SymOpt:
    """Option with a symbolic tag"""
    def __init__(s, is_some, val):
        s.is_some, s.val = is_some, val


class Ref:
    def __init__(s, cell, path=()):
        s.cell, s.path = cell, tuple(path)


class VecV:
    def __init__(s, items=None):
        s.fields = list(items or [])

    def __repr__(s):
        return 'Vec%s' % s.fields


class MapV:
    def __init__(s):
        s.items = []


class IterV:
    def __init__(s, ref):
        s.ref, s.pos = ref, 0


class DrainV:
    def __init__(s, items):
        s.items = items


class Opaque:
    def __init__(s, what):
        s.what = what

    def __repr__(s):
        return '<%s>' % s.what


INT_BITS = {'u8': 8, 'u16': 16, 'u32': 32, 'u64': 64, 'usize': 64, 'i32': 32, 'i64': 64, 'isize': 64}
BASE_DISCR = {'None': 0, 'Some': 1, 'Ok': 0, 'Err': 1, 'Continue': 0, 'Break': 1}


def source_layout():
    """Field order of the parse structs and variant order of ParseQueryParamType, read from the
    repository's source on every run (MIR addresses fields and variants by position)."""
    root = os.path.join(common.REPO, 'macros', 'src')
    def read(p):
        return open(os.path.join(root, p)).read()
    def fields(text, name):
        m = re.search(r'pub struct %s\b[^{]*\{(.*?)\n\}' % name, text, re.S)
        if not m:
            raise Unsupported('struct %s not found in source' % name)
        return re.findall(r'^\s*pub (\w+):', m.group(1), re.M)
    def variants(text, name):
        m = re.search(r'pub enum %s\b[^{]*\{(.*?)\n\}' % name, text, re.S)
        if not m:
            raise Unsupported('enum %s not found in source' % name)
        return re.findall(r'^\s*(\w+)\s*(?:\(|,|//|$)', m.group(1), re.M)
    q, w, c, a, d = read('parse/query.rs'), read('parse/world.rs'), read('parse/cfg.rs'), read('parse/attribute.rs'), read('data.rs')
    lay = {
        'ParseQueryParam': fields(q, 'ParseQueryParam'),
        'ParseQueryParamType': variants(q, 'ParseQueryParamType'),
        'ParseEcsWorld': fields(w, 'ParseEcsWorld'),
        'ParseArchetype': fields(w, 'ParseArchetype'),
        'ParseComponent': fields(w, 'ParseComponent'),
        'ParseCfgDecorated': fields(c, 'ParseCfgDecorated'),
        'ParseAttributeCfg': fields(a, 'ParseAttributeCfg'),
        'DataWorld': fields(d, 'DataWorld'),
        'DataArchetype': fields(d, 'DataArchetype'),
        'DataComponent': fields(d, 'DataComponent'),
    }
    return lay


class Layout:
    def __init__(s):
        s.lay = source_layout()
        s.discr = dict(BASE_DISCR)
        for i, v in enumerate(s.lay['ParseQueryParamType']):
            s.discr[v] = i

    def mk(s, struct_, **kw):
        order = s.lay[struct_]
        if set(order) != set(kw):
            raise Unsupported('struct %s has fields %s, harness provides %s' % (struct_, order, sorted(kw)))
        return Struct(struct_, [kw[f] for f in order])

    def get(s, val, struct_, field):
        return val.fields[s.lay[struct_].index(field)]


def rd(cell, path):
    v = cell[0]
    for k in path:
        v = v.fields[k]
    return v


def wr(cell, path, val):
    if not path:
        cell[0] = val
        return
    v = cell[0]
    for k in path[:-1]:
        v = v.fields[k]
    v.fields[path[-1]] = val


class Run:
    """one execution guided by a decision prefix"""
    def __init__(s, prefix):
        s.prefix = list(prefix); s.taken = []; s.alts = []; s.pc = []; s.solver_calls = 0; s.pruned = []

    def feasible(s, cond):
        sol = z3.Solver(); sol.add(s.pc); sol.add(cond); s.solver_calls += 1
        r = sol.check()
        if r == z3.unknown:
            raise Unsupported('solver answered unknown on a branch condition')
        if r == z3.unsat:
            s.pruned.append((list(s.pc), cond))
        return r != z3.unsat

    def branch(s, conds):
        i = len(s.taken)
        if i < len(s.prefix):
            k = s.prefix[i]
        else:
            feas = [j for j, c in enumerate(conds) if s.feasible(c)]
            if not feas:
                raise PanicPath('infeasible')
            k = feas[0]
            for j in feas[1:]:
                s.alts.append(s.taken + [j])
        s.taken.append(k); s.pc.append(conds[k])
        return k


class Interp:
    def __init__(s, mir, layout, run, pure_merge=('DataArchetype::contains_component',)):
        s.mir, s.lay, s.run = mir, layout, run
        s.modelled = set(); s.interpreted = set()
        s.pure_merge = set(pure_merge)

    # ---- items
    def find_fn(s, pred, what):
        r = [it for it in s.mir.items if it.kind == 'fn' and pred(it)]
        if not r:
            raise Unsupported('no MIR body: ' + what)
        return r[0]

    # ---- places
    def parse_place(s, txt):
        txt = txt.strip()
        if re.match(r'_\d+$', txt):
            return (txt, [])
        if txt.startswith('(') and txt.endswith(')'):
            inner = txt[1:-1]
            if inner.startswith('*'):
                r, p = s.parse_place(inner[1:]); return (r, p + [('deref',)])
            m = re.match(r'(.+) as (\w+)$', inner)
            if m and not re.search(r'\.\d+: ', inner[len(m.group(1)):]):
                r, p = s.parse_place(m.group(1)); return (r, p + [('down', m.group(2))])
            depth = 0
            for idx, ch in enumerate(inner):
                if ch in '(<[': depth += 1
                if ch in ')>]': depth -= 1
                if ch == '.' and depth == 0:
                    m = re.match(r'\.(\d+): ', inner[idx:])
                    if m:
                        r, p = s.parse_place(inner[:idx]); return (r, p + [('field', int(m.group(1)))])
            raise Unsupported('place ' + txt)
        if txt.startswith('*'):
            r, p = s.parse_place(txt[1:]); return (r, p + [('deref',)])
        raise Unsupported('place ' + txt)

    def resolve(s, txt, env):
        root, projs = s.parse_place(txt)
        if root not in env:
            env[root] = [None]
        cell, path = env[root], ()
        for p in projs:
            if p[0] == 'deref':
                r = rd(cell, path)
                if isinstance(r, (IterV, DrainV)):
                    return cell, path
                if not isinstance(r, Ref):
                    raise Unsupported('deref of non-reference')
                cell, path = r.cell, r.path
            elif p[0] == 'field':
                v = rd(cell, path)
                if isinstance(v, SymOpt):
                    return [v.val], ()
                path = path + (p[1],)
        return cell, path

    def operand(s, txt, env):
        txt = txt.strip()
        if txt.startswith('copy ') or txt.startswith('move '):
            c, p = s.resolve(txt[5:], env); return rd(c, p)
        if txt.startswith('const '):
            t = txt[6:].strip()
            m = re.match(r'(-?\d+)_(\w+)$', t)
            if m:
                return z3.BitVecVal(int(m.group(1)), INT_BITS[m.group(2)])
            if t in ('true', 'false'):
                return z3.BoolVal(t == 'true')
            return Opaque('const ' + t[:40])
        raise Unsupported('operand ' + txt)

    def rvalue(s, txt, env):
        txt = txt.strip()
        m = re.match(r'(Not|Eq|Ne|Lt|Le|Gt|Ge)\((.*)\)$', txt)
        if m:
            a = [s.operand(x, env) for x in split_top(m.group(2))]
            op = m.group(1)
            if op == 'Not':
                return z3.Not(a[0])
            if not (z3.is_expr(a[0]) and z3.is_expr(a[1])):
                raise Unsupported('comparison of non-scalars: ' + txt)
            return {'Eq': lambda x, y: x == y, 'Ne': lambda x, y: x != y, 'Lt': z3.ULT, 'Le': z3.ULE, 'Gt': z3.UGT, 'Ge': z3.UGE}[op](a[0], a[1])
        m = re.match(r'PtrMetadata\((.+)\)$', txt)
        if m:
            r = s.operand(m.group(1), env)
            return z3.BitVecVal(len(rd(r.cell, r.path).fields), 64)
        m = re.match(r'discriminant\((.+)\)$', txt)
        if m:
            c, p = s.resolve(m.group(1), env); v = rd(c, p)
            if isinstance(v, SymOpt):
                return z3.If(v.is_some, z3.BitVecVal(1, 64), z3.BitVecVal(0, 64))
            if v.name not in s.lay.discr:
                raise Unsupported('discriminant of ' + v.name)
            return z3.BitVecVal(s.lay.discr[v.name], 64)
        if txt.startswith('&'):
            t = re.sub(r'^&(mut |raw (const|mut) )?', '', txt)
            c, p = s.resolve(t, env); return Ref(c, p)
        if txt.startswith('no_retag '):
            txt = txt[len('no_retag '):]
        m = re.match(r'(.+) as .+ \((Transmute|PtrToPtr|MutToConstPointer)\)$', txt)
        if m:
            return s.operand(m.group(1), env)
        if txt.startswith(('copy ', 'move ', 'const ')):
            return s.operand(txt, env)
        m = re.match(r'\[(.*)\]$', txt)
        if m:
            return Struct('array', [s.operand(x, env) for x in split_top(m.group(1))])
        m = re.match(r'([\w:<>, \'\[\]]+?)::(\w+)(\((.*)\))?$', txt)
        if m and m.group(2) in s.lay.discr:
            a = [s.operand(x, env) for x in split_top(m.group(4))] if m.group(4) else []
            return Enum(m.group(2), a)
        m = re.match(r'([\w:<>, \']+?) \{ (.*) \}$', txt)
        if m:
            return Struct(m.group(1), [s.operand(x.split(': ', 1)[1], env) for x in split_top(m.group(2))])
        m = re.match(r'\((.*)\)$', txt)
        if m:
            return Struct('tuple', [s.operand(x, env) for x in split_top(m.group(1))])
        raise Unsupported('rvalue ' + txt)

    # ---- calls
    def call(s, callee, args):
        c = callee; M = s.modelled.add
        def is_(pat):
            return re.search(pat, c) is not None
        if is_(r'^Vec::<.*>::new$'): M(c); return VecV()
        if is_(r'^HashMap::<.*>::new$'): M(c); return MapV()
        if is_(r'^Vec::<.*>::push$'):
            M(c); rd(args[0].cell, args[0].path).fields.append(args[1]); return Struct('tuple', [])
        if is_(r'^Vec::<.*>::drain::<RangeFull>$'):
            M(c); v = rd(args[0].cell, args[0].path); d = DrainV(list(v.fields)); v.fields = []; return d
        if is_(r'as IntoIterator>::into_iter$'):
            M(c); a = args[0]
            return a if isinstance(a, (DrainV, IterV)) else IterV(a)
        if is_(r'Drain<.*as Iterator>::next$'):
            M(c); d = rd(args[0].cell, args[0].path)
            return Enum('Some', [d.items.pop(0)]) if d.items else Enum('None', [])
        if is_(r'slice::Iter<.*as Iterator>::next$'):
            M(c); it = rd(args[0].cell, args[0].path); seq = rd(it.ref.cell, it.ref.path)
            if it.pos < len(seq.fields):
                r = Ref(it.ref.cell, it.ref.path + (it.pos,)); it.pos += 1; return Enum('Some', [r])
            return Enum('None', [])
        if is_(r'as (std::ops::)?Deref>::deref$'): M(c); return args[0]
        if is_(r'^Vec::<.*>::clear$'): M(c); rd(args[0].cell, args[0].path).fields = []; return Struct('tuple', [])
        if is_(r'^Vec::<.*>::len$'): M(c); return z3.BitVecVal(len(rd(args[0].cell, args[0].path).fields), 64)
        if is_(r'^core::slice::<impl \[.*\]>::iter$'): M(c); return IterV(args[0])
        if is_(r' as Clone>::clone$'): M(c); return copy.deepcopy(rd(args[0].cell, args[0].path))
        if is_(r'^<String as PartialEq>::eq$') or is_(r'^<String as PartialEq<.*>>::eq$'):
            M(c); a = rd(args[0].cell, args[0].path); b = rd(args[1].cell, args[1].path)
            return a == b
        if is_(r'^HashMap::<String, .*>::insert$'):
            M(c); m = rd(args[0].cell, args[0].path)
            for n_, (kk, cell) in enumerate(m.items):
                same = z3.simplify(kk == args[1])
                if z3.is_true(same):
                    old_v = cell[0] if isinstance(cell, list) else cell
                    m.items[n_] = (kk, [args[2]] if isinstance(cell, list) else args[2])
                    return Enum('Some', [old_v])
                if not z3.is_false(same):
                    raise Unsupported('symbolic key into a String-keyed map (insert)')
            m.items.append((args[1], [args[2]] if is_(r'^HashMap::<String, (bool|std::option::Option<.*>|Option<.*>)>') else args[2])); return Enum('None', [])
        if is_(r'^HashMap::<.*>::clear$'): M(c); rd(args[0].cell, args[0].path).items = []; return Struct('tuple', [])
        if is_(r'Option::<.*>::unwrap_or$'):
            M(c); v = args[0]
            if isinstance(v, SymOpt):
                if z3.is_expr(v.val) and z3.is_expr(args[1]):
                    return z3.If(v.is_some, v.val, args[1])
                return v.val if s.run.branch([v.is_some, z3.Not(v.is_some)]) == 0 else args[1]
            return v.fields[0] if v.name == 'Some' else args[1]
        if is_(r'<impl u8>::wrapping_add$'):
            M(c); a, b = args; return a + b
        if is_(r'^(std::option::)?Option::<.*>::map::<'):
            M(c); v = args[0]
            if v.name == 'None':
                return Enum('None', [])
            clo = s.find_fn(lambda it: it.name.endswith('bind_one_of::{closure#0}'), 'bind_one_of closure')
            return Enum('Some', [s.exec_fn(clo, [args[1], v.fields[0]])])
        last2 = '::'.join(re.sub(r'::<.*>$', '', c).split('::')[-2:])
        if last2 in s.pure_merge:
            it = s.find_fn(lambda it: it.name.endswith('::' + c.split('::')[-1]) and 'DataArchetype' in it.header, c)
            return summarise(s, it, args)
        if is_(r'as ToString>::to_string$'): M(c); return rd(args[0].cell, args[0].path)
        if is_(r'^HashMap::<String, (bool|std::option::Option<.*>|Option<.*>)>::get::<(String|str)>$'):
            M(c); m = rd(args[0].cell, args[0].path); k = rd(args[1].cell, args[1].path)
            for kk, cell in m.items:
                same = z3.simplify(kk == k)
                if z3.is_true(same):
                    return Enum('Some', [Ref(cell)])
                if not z3.is_false(same):
                    raise Unsupported('symbolic key into the cfg lookup')
            return Enum('None', [])
        if is_(r'^HashMap::<u8, String>::insert$'):
            M(c); m = rd(args[0].cell, args[0].path); k = args[1]
            present = z3.Or([k == kk for kk, _ in m.items]) if m.items else z3.BoolVal(False)
            m.items.append((k, args[2]))
            return SymOpt(z3.simplify(present), Opaque('old name'))
        if is_(r'^HashMap::<u8, String>::(get|get_mut)::<u8>$'):
            M(c); m = rd(args[0].cell, args[0].path); k = args[1]
            k = rd(k.cell, k.path) if isinstance(k, Ref) else k
            present = z3.Or([k == kk for kk, _ in m.items]) if m.items else z3.BoolVal(False)
            return SymOpt(z3.simplify(present), Ref([Opaque('name')]))
        if is_(r'^HashMap::<u8, String>::contains_key::<u8>$'):
            M(c); m = rd(args[0].cell, args[0].path); k = args[1]
            k = rd(k.cell, k.path) if isinstance(k, Ref) else k
            return z3.simplify(z3.Or([k == kk for kk, _ in m.items]) if m.items else z3.BoolVal(False))
        if is_(r'Option::<.*>::(is_some|is_none)$'):
            M(c); v = args[0]
            v = rd(v.cell, v.path) if isinstance(v, Ref) else v
            some = v.is_some if isinstance(v, SymOpt) else z3.BoolVal(v.name == 'Some')
            return some if c.endswith('is_some') else z3.Not(some)
        if is_(r'Option::<.*>::unwrap$'):
            M(c); v = args[0]
            if isinstance(v, SymOpt):
                if s.run.branch([v.is_some, z3.Not(v.is_some)]) == 1:
                    raise PanicPath('unwrap on None')
                return v.val
            if v.name == 'None':
                raise PanicPath('unwrap on None')
            return v.fields[0]
        if is_(r'<impl u8>::checked_add$'):
            M(c); a, b = args; return SymOpt(z3.UGE(a + b, a), a + b)
        if is_(r'as (std::ops::)?Try>::branch$'):
            M(c); v = args[0]
            return Enum('Continue', [v.fields[0]]) if v.name == 'Ok' else Enum('Break', [Enum('Err', [v.fields[0]])])
        if is_(r'as FromResidual<.*>>::from_residual$'): M(c); return Enum('Err', [args[0].fields[0]])
        if is_(r'(syn::Ident::span|Ident::span|syn::Error::new|^format$|fmt::format|<impl u8>::to_string|Arguments::<.*>::(new|from_str)|Argument::<.*>::new_display|^must_use|TokenStream as ToString)'):
            M(c)
            if is_(r'TokenStream as ToString'):
                return rd(args[0].cell, args[0].path)
            return Opaque(c.split('::')[-1])
        if is_(r'HasAttributeId>::(id|name)$'):
            which = c.rsplit('::', 1)[1]; sname = rd(args[0].cell, args[0].path).name.split('::')[-1]
            it = s.find_fn(lambda it: it.name.endswith('::' + which) and len(it.params) == 1 and re.search(r'\b%s\b' % sname, it.params[0]) is not None, c + ' for ' + sname)
            return s.exec_fn(it, args)
        base = re.sub(r'::<.*>$', '', c)
        cands = [it for it in s.mir.items if it.kind == 'fn' and (it.name == base or it.name.endswith('::' + base))]
        if cands:
            return s.exec_fn(cands[0], args)
        raise Unsupported('callee ' + c)

    def exec_fn(s, it, args):
        s.interpreted.add(it.name)
        env = {}
        for p, a in zip(it.params, args):
            env[p.split(': ')[0]] = [a]
        bb = 'bb0'
        steps = 0
        while True:
            steps += 1
            if steps > 20000:
                raise Unsupported('step limit in ' + it.name)
            nxt = None
            for st in it.blocks[bb]:
                if st.startswith(('StorageLive', 'StorageDead', 'nop', 'FakeRead', 'PlaceMention', 'Retag', 'Coverage')):
                    continue
                if st == 'return':
                    return env['_0'][0]
                if st == 'unreachable':
                    raise PanicPath('unreachable')
                m = re.match(r'goto -> (bb\d+)$', st)
                if m:
                    nxt = m.group(1); break
                m = re.match(r'drop\(.*\) -> \[return: (bb\d+),', st)
                if m:
                    nxt = m.group(1); break
                m = re.match(r'switchInt\((.+?)\) -> \[(.+)\]$', st)
                if m:
                    v = s.operand(m.group(1), env)
                    if isinstance(v, bool):
                        v = z3.BoolVal(v)
                    v = z3.simplify(v) if z3.is_expr(v) else v
                    tg = [t.strip().split(': ') for t in m.group(2).split(',')]
                    conds = []; dests = []
                    for k, t in tg:
                        if k == 'otherwise':
                            cnd = z3.And([z3.Not(x) for x in conds]) if conds else z3.BoolVal(True)
                        elif z3.is_bool(v):
                            cnd = z3.Not(v) if k == '0' else v
                        else:
                            cnd = (v == z3.BitVecVal(int(k), v.size()))
                        conds.append(cnd); dests.append(t)
                    sc = [z3.simplify(cnd) for cnd in conds]
                    triv = [i for i, cnd in enumerate(sc) if z3.is_true(cnd)]
                    if triv:
                        k = triv[0]
                    else:
                        live = [i for i, cnd in enumerate(sc) if not z3.is_false(cnd)]
                        k = live[s.run.branch([conds[i] for i in live])]
                    nxt = dests[k]; break
                if re.match(r'_\d+ = (core::panicking::panic|std::rt::begin_panic|panic_cold|core::panicking::panic_fmt|todo)', st):
                    raise PanicPath(st[:90])
                m = re.match(r'(_\d+|\(.+?\)) = (.+?)\((.*)\) -> (\[return: (bb\d+), unwind.*\]|unwind .*)$', st)
                if m and not re.match(r'(Not|Eq|Ne|Lt|Le|Gt|Ge|discriminant|PtrMetadata)$', m.group(2)):
                    a = [s.operand(x, env) for x in split_top(m.group(3))]
                    if not m.group(5):
                        raise PanicPath('diverging call ' + m.group(2)[:60])
                    v = s.call(m.group(2), a)
                    c_, p_ = s.resolve(m.group(1), env); wr(c_, p_, v)
                    nxt = m.group(5); break
                m = re.match(r'(_\d+|\(.+\)) = (.+)$', st)
                if m:
                    try:
                        v = s.rvalue(m.group(2), env)
                    except AttributeError as e:
                        raise Unsupported('%s: %s :: %s' % (it.name, st, e))
                    c_, p_ = s.resolve(m.group(1), env); wr(c_, p_, v); continue
                raise Unsupported('%s: %s' % (it.name, st))
            if nxt is None:
                raise Unsupported('fell off ' + bb)
            bb = nxt


def summarise(outer, it, args):
    """explore a pure bool function under the caller's path condition; merge its paths into one formula"""
    work = [[]]; disj = []
    while work:
        prefix = work.pop(); run = Run(prefix); run.pc = list(outer.run.pc); base = len(run.pc)
        I = Interp(outer.mir, outer.lay, run, outer.pure_merge)
        v = I.exec_fn(it, copy.deepcopy(args))
        work.extend(run.alts); outer.run.solver_calls += run.solver_calls
        outer.interpreted |= I.interpreted; outer.modelled |= I.modelled
        outer.run.pruned.extend(run.pruned)
        if isinstance(v, bool):
            v = z3.BoolVal(v)
        disj.append(z3.And(run.pc[base:] + [v]) if run.pc[base:] else v)
    return z3.simplify(z3.Or(disj))


def explore(mir, layout, harness, max_paths=20000):
    """harness(I) -> value. Returns (results [(pc, ('ret'|'panic', value))], stats)."""
    work = [[]]; results = []
    stats = {'modelled': set(), 'interpreted': set(), 'solver_calls': 0, 'pruned': []}
    while work:
        prefix = work.pop()
        run = Run(prefix); I = Interp(mir, layout, run)
        try:
            out = ('ret', harness(I))
        except PanicPath as p:
            out = ('panic', str(p))
        work.extend(run.alts)
        stats['solver_calls'] += run.solver_calls
        stats['modelled'] |= I.modelled; stats['interpreted'] |= I.interpreted
        stats['pruned'].extend(run.pruned)
        results.append((run.pc, out))
        if len(results) > max_paths:
            raise Unsupported('more than %d paths' % max_paths)
    return results, stats
