"""E2 driver: MIR dumps, task table per property, parallel execution, two-solver discharge,
validation of the interpreter against the real macros, native replay of counterexamples."""
import json, os, random, re, time, traceback, itertools
from concurrent.futures import ProcessPoolExecutor, as_completed
from . import common

BOUND_KERNEL = "full width: all values of every integer input; archetype id symbolic (all 256)"


# ---------------------------------------------------------------------------------------------
# task table

def tasks_for(pid, tier, seed):
    T = tier == "thorough"
    rnd = random.Random(1000 + seed)
    t = []
    def kern(family, dbg=True, features=(), what=""):
        t.append(dict(kind="kernel", family=family, dbg=dbg, features=tuple(features), what=what,
                      name="kernel:%s[%s,%s]" % (family, "+".join(features) or "default", "dbg" if dbg else "nodbg")))
    if pid == "C03":
        kern("index_extraction", True, what="slot_index()/dense_index() < 2^24 for every u32 key; unwrap_unchecked never None")
        kern("index_extraction", False, what="same with debug assertions off (unreachable_unchecked paths)")
        kern("trimmed_index", True, what="TrimmedIndex::new_* is Some exactly below 2^24")
        kern("slot_index_encoding", True, what="free-bit encoding of slot indices: free/live never confused, end marker is no valid index")
        kern("slot_index_encoding", False)
        kern("conversions", False, what="from_any_unchecked keeps the payload (nodbg)")
    if pid == "C01":
        kern("slot_index_encoding", True, what="free-list links and data indices round-trip for every index below 2^24 (a mis-decoded link hands a live position out again)")
        kern("version_next", True, what="next() = g+1 below u32::MAX, panics exactly at u32::MAX (default features)")
        kern("trimmed_index", True)
    if pid == "C09":
        kern("conversions", True, what="typed/dynamic direct conversions keep (index, version) and check the archetype id")
        kern("conversions", False, what="same with debug assertions off: the checking conversions still check")
    if pid == "C10":
        kern("growth", True, what="the capacity-overflow refusal happens before any store through self")
        kern("admission", True, what="push panics only at the limit, before force_create touches anything")
    if pid == "C08":
        kern("slot_index_encoding", True, what="index_free(new_free(i)) == Some(i) for every i < 2^24: a mis-decoded free-list link re-issues a live position")
        kern("version_next", False)
        kern("version_next", True, what="next() = g+1 below u32::MAX, panics exactly at u32::MAX")
        kern("packing", True, what="EntityAny::new is injective in (index, id, generation); low byte = id")
        if T:
            kern("version_next", True, ("wrapping_version",), what="wrapping_version: wraps to 1, never 0")
    if pid == "C12":
        kern("growth", True, what="grow(): capacity < 2^24 => strictly larger, <= 2^24; >= 2^24 => false before any store")
        kern("admission", True, what="push panics exactly when len == capacity == 2^24 (grow's contract assumed, discharged by the growth kernel of the same run), calls grow only on a full storage, creates only with room; push_within_capacity creates iff len < capacity and returns Err otherwise")
        kern("constants", True, what="MAX_DATA_CAPACITY == 2^24")
        kern("trimmed_index", True)
        kern("slot_index_encoding", True, what="free-list links round-trip for every index below 2^24")
        kern("growth", False)
        kern("admission", False)
    if pid == "C14":
        kern("conversions", True, what="TryFrom/from_any/from_any_unchecked/from_raw/raw/archetype_id for a symbolic ARCHETYPE_ID")
        kern("hashing", True, what="Hash feeds one u64 that is injective in (key, generation)")
        kern("packing", True)
        kern("conversions", False, what="same with debug assertions off: from_any / TryFrom still check the archetype id (only from_any_unchecked may skip it)")
        kern("conversions", True, ("wrapping_version",), what="feature wrapping_version changes no conversion: from_raw still rejects exactly a zero generation and round-trips every other pair")
        if T:
            kern("index_extraction", True)
    if pid == "C19":
        kern("version_next", True, ("wrapping_version",), what="wrapping_version replaces the panic by wraparound to 1")
        kern("version_next", False, ())
        kern("conversions", False, ())
        if T:
            for fs in (("events",), ("32_components",), ("events", "wrapping_version", "32_components")):
                kern("packing", True, fs)
                kern("index_extraction", False, fs)
                kern("growth", True, fs)
    def cfgparam(n):
        t.append(dict(kind="cfgparam", n=n, name="cfg-param:%d stacked" % n,
                      what="is_cfg_enabled of a query parameter with %d stacked #[cfg] attributes is the conjunction of their truth values" % n))
    if pid in ("C10", "C04"):
        t.append(dict(kind="unwind", dbg=True, features=(), name="unwind:Storage::clone",
                      what="MIR path facts: on the unwind edge of every user Clone::clone call inside Storage{N}::clone only RefCell guards are dropped (no partially initialised storage), and unwinding out of a component destructor inside DataPtr::drop_to drops nothing in that frame again; confirmed natively by a Clone / a Drop that really panics at its k-th call"))
    if pid == "C15":
        def ids(k, c, arch_cfg, comp_cfg, label, stack=False):
            t.append(dict(kind="ids", k=k, c=c, arch_cfg=arch_cfg, comp_cfg=comp_cfg, stack=stack, name="ids:%s" % label,
                          what="DataWorld::new over %d archetypes x %d components, every explicit id a symbolic Option<u8>%s" % (k, c, ", cfg flags symbolic" if arch_cfg or comp_cfg else "")))
        ids(2, 2, True, False, "2x2+archcfg")
        ids(1, 4, False, False, "1x4 (one scope, 4 items)")
        ids(2, 2, False, True, "2x2+compcfg")
        ids(2, 1, True, True, "2x1+stacked cfgs (two attributes per item)", stack=True)
        if T:
            ids(3, 1, False, True, "3x1+compcfg")
            ids(3, 2, True, False, "3x2+archcfg")
            ids(1, 6, False, False, "1x6 (one scope, 6 items)")
            ids(4, 1, True, False, "4x1+archcfg")
            ids(2, 3, False, True, "2x3+compcfg")
            ids(6, 0, False, False, "6x0 (archetype scope, 6 items)") if False else None
    if pid == "C16":
        def meta(k, c, pa, pc_, n, label):
            t.append(dict(kind="cfgdecl", k=k, c=c, pred_of_arch=pa, pred_of_comp=pc_, n_pred=n, name="cfg-decl:%s" % label,
                          what="declaration with cfg'd items under every truth assignment == erased declaration (through the real DataWorld::new twice)"))
        meta(2, 1, [(0,), ()], [[()], [(1,)]], 2, "2x1 arch0:p0 comp(1,0):p1")
        meta(2, 2, [(), (0,)], [[(0,), ()], [(), ()]], 1, "2x2 shared predicate on arch1 and comp(0,0)")
        meta(2, 1, [(0, 1), ()], [[()], [(1, 0)]], 2, "2x1 stacked predicates on arch0 and comp(1,0)")
        cfgparam(3)
        for sh in ("CC", "CE", "OC", "DC", "ED"):
            t.append(dict(kind="cfgbind", A=2, C=3, shape=sh, name="cfg-query:%s 2x3" % sh,
                          what="query with cfg'd parameters under every truth assignment keeps the archetypes of the erased query"))
        if T:
            meta(3, 1, [(0,), (1,), (0, 1)], [[()], [()], [()]], 2, "3x1 conjunction of two predicates")
            meta(2, 2, [(0,), ()], [[(), (1,)], [(2,), ()]], 3, "2x2 three predicates")
            meta(1, 3, [()], [[(0,), (1,), (0, 1)]], 2, "1x3 components incl. conjunction")
            for sh in ("CCC", "CED", "DC", "CY", "OCE", "EC"):
                t.append(dict(kind="cfgbind", A=3 if len(sh) < 3 else 2, C=3, shape=sh, name="cfg-query:%s" % sh,
                              what="query with cfg'd parameters == erased query"))
    if pid == "C05":
        kinds = "COEDYVWX"
        one = [k for k in kinds] + ["P"]
        two = ["".join(p) for p in itertools.product(kinds, repeat=2)]
        three = ["".join(p) for p in itertools.product(kinds, repeat=3)]
        rnd.shuffle(two); rnd.shuffle(three)
        if T:
            shapes = one + two + three[:90] + ["PC", "CP", "OP"]
            A, C = 3, 3
        else:
            shapes = ["C", "O", "CO", "EC", "OY"] + two[:6] + three[:3]
            A, C = 2, 3
        seen = set()
        for sh in shapes:
            if sh in seen:
                continue
            seen.add(sh)
            a = A if len(sh) < 3 else 2
            c = 4 if (T and len(sh) == 1) else C
            t.append(dict(kind="bind", A=a, C=c, shape=sh, name="bind:%s %dx%d" % (sh, a, c),
                          what="bind_query_params for parameter skeleton %s over %d archetypes x %d pooled components; names, membership matrix and cfg flags symbolic" % (sh, a, c)))
        cfgparam(2)
        t.append(dict(kind="bind", A=2, C=3, shape="O", oneof_cfg=True, name="bind:O+cfg 2x3", what="a cfg attribute on a OneOf parameter is rejected"))
    return [x for x in t if x]


# ---------------------------------------------------------------------------------------------
# worker

_MIR_CACHE = {}


def _mir(path):
    from .mirsym import mir
    if path not in _MIR_CACHE:
        _MIR_CACHE[path] = mir.Mir(open(path).read())
    return _MIR_CACHE[path]


def _short(names):
    return sorted(set(re.sub(r'<impl at [^>]*>', '<impl>', n) for n in names))


def _unwind_drops(it, start):
    """All `drop(_n)` statements reachable along the cleanup chain that starts at block `start`
    (drop / goto / switchInt on drop flags are followed; every branch is taken)."""
    dropped, seen, todo = [], set(), [start]
    while todo:
        cur = todo.pop()
        if not cur or cur in seen:
            continue
        seen.add(cur)
        for s2 in it.blocks.get(cur, []):
            d = re.match(r"drop\((_\d+)\) -> \[return: (bb\d+)", s2)
            if d:
                dropped.append((d.group(1), it.locals.get(d.group(1), "?"))); todo.append(d.group(2))
            g = re.match(r"goto -> (bb\d+)", s2)
            if g:
                todo.append(g.group(1))
            sw = re.match(r"switchInt\(.*\) -> \[(.*)\]", s2)
            if sw:
                todo.extend(re.findall(r"bb\d+", sw.group(1)))
    return dropped


def run_task(task, mir_path, validate_n):
    import z3
    from .mirsym import smt, kernels_ob, macros_ob, macrosym, kernel
    t0 = time.time()
    res = dict(name=task["name"], what=task.get("what", ""), verdict="inconclusive", reason="", functions=[], paths=0, queries=0,
               solver_s=0.0, solvers=["z3 5.1 (in-process)", "z3 4.8.12", "cvc5 1.0"], modelled_callees=[], samples=[], validated_against_impl=0,
               task=task, bounds="", assumes=[])
    try:
        M = _mir(mir_path)
        pruned = []
        witnesses = []
        if task["kind"] == "kernel":
            cx = kernels_ob.Ctx(M, wrapping="wrapping_version" in task["features"])
            fam = kernels_ob.FAMILIES[task["family"]]
            if task["family"] == "conversions":
                fam(cx, debug_assertions=task["dbg"])
            else:
                fam(cx)
            obs = cx.obs
            res["functions"] = _short(cx.functions)
            res["modelled_callees"] = sorted(cx.modelled)
            res["paths"] = len(obs)
            res["bounds"] = BOUND_KERNEL
        elif task["kind"] == "unwind":
            res["bounds"] = "Storage1..Storage16 (all generic MIR bodies of `impl Clone for StorageN`); every call to <Tk as Clone>::clone"
            res["assumes"] = ["syntactic MIR fact (no solver query): the deciding observation for a violation is the native run with a really panicking Clone"]
            facts = []
            bad_facts = []
            for it in M.items:
                if it.kind != "fn" or not it.name.endswith("::clone") or not re.search(r"\(_1: &Storage\d+<", it.header):
                    continue
                res["functions"].append(re.sub(r"<impl at [^>]*>", "<impl>", it.name) + " for " + re.search(r"Storage\d+", it.header).group(0))
                for bb, sts in it.blocks.items():
                    for st in sts:
                        m = re.match(r"_\d+ = <T\d+ as Clone>::clone\(.*\) -> \[return: bb\d+, unwind: (bb\d+)\]", st)
                        if not m:
                            continue
                        dropped = _unwind_drops(it, m.group(1))
                        facts.append((it.header[:80], st[:60], dropped))
                        for loc, ty in dropped:
                            if not re.match(r"(std::cell::)?(Ref|RefMut)<", ty):
                                bad_facts.append("%s: unwinding out of `%s` drops %s: %s" % (re.search(r"Storage\d+", it.header).group(0), st.split(" = ")[1][:40], loc, ty[:80]))
            # second fact: DataPtr::drop_to (the loop `Storage::drop` runs over every column) — unwinding out of a
            # component's destructor must not drop anything in that frame again (a "keep dropping" guard that restarts at
            # the panicking element would drop it twice); confirmed natively by a Drop that really panics at its k-th call
            drop_bad = []
            for it in M.items:
                if it.kind != "fn" or not it.name.endswith("::drop_to") or "DataPtr<" not in it.header:
                    continue
                res["functions"].append(re.sub(r"<impl at [^>]*>", "<impl>", it.name))
                for bb, sts in it.blocks.items():
                    for st in sts:
                        m = re.match(r"_\d+ = (?:std::ptr::)?drop_in_place::<T>\(.*\) -> \[return: bb\d+, unwind(?:: (bb\d+)| continue)\]", st)
                        if not m:
                            continue
                        dropped = _unwind_drops(it, m.group(1))
                        facts.append((it.header[:80], st[:60], dropped))
                        for loc, ty in dropped:
                            drop_bad.append("DataPtr::drop_to: unwinding out of `%s` drops %s: %s" % (st.split(" = ")[1][:40], loc, ty[:80]))
            if drop_bad and not bad_facts:
                bad_facts = drop_bad
                res["native_harness_override"] = "c10::c10_native_drop_panics_at_k"
            res["paths"] = len(facts)
            res["queries"] = len(facts)
            res["samples"] = [{"call": f[1], "dropped_on_unwind": [t_ for _, t_ in f[2]]} for f in facts[:2]]
            if not facts:
                res["verdict"] = "inconclusive"; res["reason"] = "no Clone::clone call found in Storage::clone MIR"
            elif bad_facts:
                res["verdict"] = "violation"; res["reason"] = bad_facts[0]; res["n_violated"] = len(bad_facts)
                res["native_harness"] = res.pop("native_harness_override", "c10::c10_native_clone_panics_at_k")
            else:
                res["verdict"] = "holds"
            res["wall_s"] = time.time() - t0
            return res
        elif task["kind"] == "ids":
            k, c = task["k"], task["c"]
            pa = [((i,) if task["arch_cfg"] else ()) for i in range(k)]
            pc_ = [[((k * task["arch_cfg"] + i * c + j,) if task["comp_cfg"] else ()) for j in range(c)] for i in range(k)]
            n_pred = k * task["arch_cfg"] + k * c * task["comp_cfg"]
            if task.get("stack"):
                # every archetype carries TWO stacked cfg attributes, the first component of each archetype two as well
                pa = [(2 * i, 2 * i + 1) for i in range(k)]
                pc_ = [[((2 * k + 2 * i, 2 * k + 2 * i + 1) if j == 0 else ()) for j in range(c)] for i in range(k)]
                n_pred = 4 * k
            d = macros_ob.Decl(k, c, pa, pc_, n_pred)
            obs, results, stats, sec = macros_ob.ids_obligations(M, d, task["name"])
            res.update(paths=len(results), functions=_short(stats["interpreted"]), modelled_callees=sorted(stats["modelled"]))
            res["bounds"] = "%d archetypes x %d components; ids full u8; %d cfg predicates" % (k, c, n_pred)
            pruned = stats["pruned"]
            witnesses = [("ids", d, pc, out) for pc, out in results]
        elif task["kind"] == "cfgdecl":
            d = macros_ob.Decl(task["k"], task["c"], task["pred_of_arch"], task["pred_of_comp"], task["n_pred"])
            obs, npaths, stats, sec = macros_ob.cfg_metamorphic_obligations(M, d, task["name"])
            res.update(paths=npaths, functions=_short(stats["interpreted"]), modelled_callees=sorted(stats["modelled"]))
            res["bounds"] = "%d archetypes x %d components, %d predicates, all 2^%d truth assignments" % (task["k"], task["c"], task["n_pred"], task["n_pred"])
            pruned = stats["pruned"]
        elif task["kind"] == "bind":
            q = macros_ob.Query(task["A"], task["C"], task["shape"], oneof_cfg=task.get("oneof_cfg", False))
            obs, results, stats, sec = macros_ob.bind_obligations(M, q, task["name"])
            res.update(paths=len(results), functions=_short(stats["interpreted"]), modelled_callees=sorted(stats["modelled"]))
            res["bounds"] = "%d archetypes x pool of %d components, skeleton %s" % (task["A"], task["C"], task["shape"])
            pruned = stats["pruned"]
            witnesses = [("bind", q, pc, out) for pc, out in results]
        elif task["kind"] == "cfgbind":
            q = macros_ob.Query(task["A"], task["C"], task["shape"])
            obs, npaths, stats, sec = macros_ob.bind_cfg_metamorphic(M, q, task["name"])
            res.update(paths=npaths, functions=_short(stats["interpreted"]), modelled_callees=sorted(stats["modelled"]))
            res["bounds"] = "%d archetypes x pool of %d components, skeleton %s, every enabled/disabled assignment" % (task["A"], task["C"], task["shape"])
            pruned = stats["pruned"]
        elif task["kind"] == "cfgparam":
            obs, results, stats, sec = macros_ob.param_cfg_obligations(M, task["n"], task["name"])
            res.update(paths=len(results), functions=_short(stats["interpreted"]), modelled_callees=sorted(stats["modelled"]))
            res["bounds"] = "one query parameter with %d stacked #[cfg] attributes, every truth assignment of the predicates" % task["n"]
            pruned = stats["pruned"]
        else:
            raise ValueError(task["kind"])

        res["solver_s"] = smt.discharge(obs, cross_check=True)
        res["queries"] = len(obs) * 3
        # path pruning used in-process z3 only: re-check every pruned branch condition with cvc5
        if pruned:
            pr = [smt.Obligation("pruned branch %d" % i, pc + [cond], z3.BoolVal(False)) for i, (pc, cond) in enumerate(pruned)]
            res["solver_s"] += smt.discharge(pr, cross_check=True)
            res["queries"] += len(pr) * 3
            badp = [o for o in pr if o.result != "holds"]
            if badp:
                res["verdict"] = "inconclusive"
                res["reason"] = "a pruned branch is not confirmed infeasible by all solvers: " + badp[0].note
                res["wall_s"] = time.time() - t0
                return res
            res["pruned_branches_rechecked"] = len(pr)
        bad = [o for o in obs if o.result == "violated"]
        inc = [o for o in obs if o.result == "inconclusive"]
        res["samples"] = [{"obligation": o.name, "result": o.result} for o in obs[:3]]
        if bad:
            o = bad[0]
            res["verdict"] = "violation"
            res["reason"] = o.name
            res["model"] = smt.model_dict(o.model)
            res["n_violated"] = len(bad)
            if task["kind"] in ("ids", "bind"):
                res["counterexample"] = concretise(task, witnesses[0][1], o.model, use_spec=True)
        elif inc:
            res["verdict"] = "inconclusive"
            res["reason"] = "%s: %s" % (inc[0].name, inc[0].note)
        else:
            res["verdict"] = "holds"
        # witnesses for validation against the real macros
        if validate_n and witnesses and not bad:
            picks = pick_witnesses(witnesses, validate_n)
            res["validation_cases"] = [concretise(task, w[1], model_of(w[2]), use_spec=False, out=w[3]) for w in picks]
            res["validation_cases"] = [c for c in res["validation_cases"] if c]
    except (macrosym.Unsupported, kernel.Unsupported) as e:
        res["verdict"] = "inconclusive"
        res["reason"] = "interpreter does not model: %s" % str(e)[:300]
    except Exception as e:
        res["verdict"] = "inconclusive"
        res["reason"] = "%s: %s | %s" % (type(e).__name__, str(e)[:200], traceback.format_exc(limit=4)[-400:])
    res["wall_s"] = time.time() - t0
    return res


def model_of(pc):
    import z3
    s = z3.Solver(); s.add(*pc)
    if s.check() != z3.sat:
        return None
    return s.model()


def pick_witnesses(witnesses, n):
    oks = [w for w in witnesses if w[3][0] == "ret" and w[3][1].name == "Ok"]
    errs = [w for w in witnesses if w[3][0] == "ret" and w[3][1].name == "Err"]
    rnd = random.Random(len(witnesses))
    rnd.shuffle(oks); rnd.shuffle(errs)
    n_err = min(len(errs), max(1, n // 4))
    return oks[:n - n_err] + errs[:n_err]


def concretise(task, obj, model, use_spec, out=None):
    """Turns a model into a concrete program description + the expectation (from the rule when
    use_spec, else from the interpreter's own path result)."""
    import z3
    from .mirsym import macros_ob
    from .mirsym.macrosym import Layout
    if model is None:
        return None
    def ev(t):
        return model.eval(t, model_completion=True)
    def evb(t):
        return z3.is_true(ev(t))
    def evi(t):
        return ev(t).as_long()
    lay = Layout()
    if task["kind"] == "ids":
        d = obj
        truth = [evb(p) for p in d.P]
        decl = {"archetypes": []}
        for i in range(d.k):
            a = {"name": "A%d" % i, "explicit": evi(d.A_ID[i].val) if evb(d.A_ID[i].is_some) else None,
                 "cfgs": [truth[p] for p in d.pred_of_arch[i]], "components": []}
            for j in range(d.c):
                a["components"].append({"name": "T%d" % j, "explicit": evi(d.C_ID[i][j].val) if evb(d.C_ID[i][j].is_some) else None,
                                        "cfgs": [truth[p] for p in d.pred_of_comp[i][j]]})
            decl["archetypes"].append(a)
        if use_spec:
            a_en = [d.arch_enabled(i) for i in range(d.k)]
            ok_a, ids_a = macros_ob.rule(d.A_ID, a_en)
            comp = [macros_ob.rule(d.C_ID[i], [d.comp_enabled(i, j) for j in range(d.c)]) for i in range(d.k)]
            ok = evb(ok_a) and all((not evb(a_en[i])) or evb(comp[i][0]) for i in range(d.k))
            exp = None
            if ok:
                exp = {"archetypes": [("A%d" % i, evi(ids_a[i]), [("T%d" % j, evi(comp[i][1][j])) for j in range(d.c) if evb(d.comp_enabled(i, j))]) for i in range(d.k) if evb(a_en[i])]}
        else:
            kind, val = out
            if kind != "ret":
                return None
            exp = None
            if val.name == "Ok":
                w = macros_ob.decode_world(lay, val.fields[0])
                exp = {"archetypes": [("A%d" % i, evi(aid), [("T%d" % j, evi(cid)) for j, cid in comps]) for i, aid, comps in w]}
        # an enabled archetype without any enabled component, or without archetypes at all, is outside the macro's grammar
        if any(not a["components"] for a in decl["archetypes"]):
            return None
        for a in decl["archetypes"]:
            if all(a["cfgs"]) and not any(all(c["cfgs"]) for c in a["components"]):
                return None     # an enabled archetype with no enabled component has no StorageN: outside the grammar
        return {"kind": "ids", "decl": decl, "expect": exp}
    if task["kind"] == "bind":
        q = obj
        world = []
        for a in range(q.A):
            comps = ["T%d" % j for j in range(q.C) if evb(q.HAS[a][j])]
            if not comps:
                return None     # an archetype needs at least one component in a real declaration
            world.append({"name": "A%d" % a, "components": comps})
        query = []
        for k, kd in enumerate(q.kinds):
            ar = {"C": 1, "O": 2, "P": 3, "E": 1, "D": 1}.get(kd, 0)
            names = []
            for t in range(ar):
                v = evi(q.NAME[k][t])
                if kd in "ED":
                    if v == 1999:
                        return None   # names an archetype outside the world: a different compile error
                    names.append("A%d" % (v - 1000))
                else:
                    names.append("T%d" % v)
            cfg = None
            if kd in "CED" and not evb(q.EN[k]):
                cfg = False
            if q.oneof_cfg and kd in "OP":
                cfg = True
            query.append({"kind": kd, "names": names, "cfg": cfg})
        if use_spec:
            keep, err, found = q.spec()
            exp = None if evb(err) else ["A%d" % a for a in range(q.A) if evb(keep[a])]
        else:
            kind, val = out
            if kind != "ret":
                return None
            exp = None if val.name == "Err" else ["A%d" % a for a in sorted(macros_ob.decode_bound(lay, val.fields[0]))]
        # a component type named by the query must exist somewhere in the world, else rustc reports an unknown type
        used = {n for p in query for n in p["names"] if n.startswith("T")}
        have = {c for a in world for c in a["components"]}
        if not used <= have:
            return None
        return {"kind": "bind", "world": world, "query": query, "expect": exp}
    return None


# ---------------------------------------------------------------------------------------------
# native side

def native_check(cases, label):
    """Runs concrete cases through the REAL macros. Each case: expectation None = compile error.
    Returns (n_agree, disagreements [str])."""
    from .mirsym import progs
    ok_mods = []; err_cases = []
    for n, c in enumerate(cases):
        mod = "m%d" % n
        if c["kind"] == "ids":
            if c["expect"] is None:
                err_cases.append((mod, "\n".join(progs.decl_source(mod, c["decl"]) + ["}"]), ("already assigned", "may not exceed 255")))
            else:
                ok_mods.append(progs.decl_ok_module(mod, c["decl"], c["expect"]))
        else:
            if c["expect"] is None:
                src = progs.query_module(mod, c["world"], c["query"], [])
                err_cases.append((mod, src, ("ambiguous", "not currently supported on OneOf")))
            elif not c["expect"]:
                src = progs.query_module(mod, c["world"], c["query"], [])
                err_cases.append((mod, src, ("query matched no archetypes",)))
            else:
                ok_mods.append(progs.query_module(mod, c["world"], c["query"], c["expect"]))
    agree = 0; dis = []
    if ok_mods:
        built, complaints, err = progs.run_ok_modules(label + "_ok", ok_mods)
        if not built:
            dis.append("program expected to compile did not build: " + err[-600:])
        else:
            agree += len(ok_mods) - len(complaints)
            dis += complaints
    for mod, src, needles in err_cases:
        failed, _, err = progs.expect_compile_error(label + "_" + mod, src, "")
        if failed and any(n in err for n in needles):
            agree += 1
        elif failed:
            dis.append("%s: expected a compile error mentioning one of %s, got another error: %s" % (mod, needles, err[-300:]))
        else:
            dis.append("%s: expected a compile error (%s) but the program compiled" % (mod, "/".join(needles)))
    return agree, dis


def run(pid, tier, spec):
    from .mirsym import mir
    seed = common.seed()
    tasks = tasks_for(pid, tier, seed)
    if not tasks:
        return []
    # MIR dumps needed
    dumps = {}
    t0 = time.time()
    for t in tasks:
        crate = "gecs" if t["kind"] in ("kernel", "unwind") else "gecs_macros"
        key = (crate, t.get("dbg", True), t.get("features", ()))
        if key not in dumps:
            try:
                text, sec = mir.dump(crate, debug_assertions=key[1], features=key[2])
                path = os.path.join(common.scratch_root(), "mir_%s_%s_%s.mir" % (crate, "dbg" if key[1] else "nodbg", "+".join(key[2]) or "default"))
                dumps[key] = path
            except Exception as e:
                dumps[key] = e
        t["_dump"] = key
    common.log("MIR dumps: %d in %.0fs" % (len(dumps), time.time() - t0))
    validate_n = 0
    if any(t["kind"] in ("ids", "bind") for t in tasks):
        validate_n = 4 if tier == "quick" else 8
    results = []
    workers = int(os.environ.get("VERIF_E2_WORKERS", "12"))
    with ProcessPoolExecutor(max_workers=workers) as ex:
        futs = {}
        for t in tasks:
            d = dumps[t["_dump"]]
            if isinstance(d, Exception):
                results.append(dict(name=t["name"], verdict="inconclusive", reason="MIR dump failed: %s" % str(d)[:300], what=t.get("what", ""), queries=0, paths=0, functions=[], task=t))
                continue
            vn = validate_n if t["kind"] in ("ids", "bind") else 0
            futs[ex.submit(run_task, {k: v for k, v in t.items() if k != "_dump"}, d, vn)] = t
        for f in as_completed(futs):
            r = f.result()
            common.log("%-12s %-48s %5.0fs paths=%d queries=%d %s" % (r["verdict"], r["name"], r.get("wall_s", 0), r.get("paths", 0), r.get("queries", 0), r.get("reason", "")[:120]))
            results.append(r)
    # validate the interpreter against the real macros (witnesses of explored paths)
    cases = []
    owners = []
    per_task_cap = 3 if tier == "quick" else 6
    for r in results:
        for c in (r.get("validation_cases") or [])[:per_task_cap]:
            cases.append(c); owners.append(r)
    cap = 12 if tier == "quick" else 60
    if len(cases) > cap:
        idx = sorted(random.Random(seed).sample(range(len(cases)), cap))
        cases = [cases[i] for i in idx]; owners = [owners[i] for i in idx]
    if cases:
        t1 = time.time()
        agree, dis = native_check(cases, "validate_%s" % pid)
        common.log("translator validation: %d cases through the real macros, %d agree, %d disagree in %.0fs" % (len(cases), agree, len(dis), time.time() - t1))
        share = agree // max(1, len(set(id(o) for o in owners)))
        seen = set()
        for o in owners:
            if id(o) not in seen:
                seen.add(id(o))
                o["validated_against_impl"] = sum(1 for x in owners if x is o) if not dis else 0
        if dis:
            # The witnesses' expectations are the INTERPRETER's predictions for explored paths, and every
            # obligation interpreter-vs-specification held; so a real program on which the real macro deviates
            # from the prediction deviates from the specification — demonstrated natively just now. (On the
            # unchanged tree all witnesses agree, which is what validates the program generator.)
            all_hold = all(o["verdict"] == "holds" for o in results if o.get("validation_cases") is not None or o.get("task", {}).get("kind") in ("ids", "bind"))
            os.makedirs(common.REPLAY_DIR, exist_ok=True)
            path = os.path.join(common.REPLAY_DIR, "%s_e2_witness_%s.json" % (pid, common.sha(dis[0])))
            with open(path, "w") as f:
                json.dump({"kind": "e2", "property": pid, "task": {"kind": "witness"}, "obligation": dis, "cases": cases,
                           "how_to_replay": "/verif/check %s --tier quick (regenerates and re-runs the witness programs)" % pid}, f, indent=1, default=str)
            results.append(dict(name="witness programs through the real macros", verdict="violation" if all_hold else "inconclusive",
                                reason=("the real macro deviates from the specification on a real program: " if all_hold else "interpreter and real macro disagree on a witness while obligations do not all hold: ") + dis[0][:300],
                                what="witnesses of explored MIR paths compiled and run as real programs", queries=len(cases), paths=len(cases), functions=[], task=dict(kind="witness"),
                                replay_path=path, native={"disagreements": dis}, n_violated=len(dis), samples=[], wall_s=time.time() - t1, bounds="", assumes=[]))
    # C16: twin corpus — real decorated programs vs their erased twins through the real macros and rustc
    if pid in ("C16", "C05", "C15"):
        from .mirsym import progs
        tdir = os.path.join(os.path.dirname(os.path.abspath(__file__)), "mirsym", "twins")
        for fn in sorted(os.listdir(tdir)):
            if not fn.endswith(".rs"):
                continue
            if (pid == "C05" and not fn.startswith("query_")) or (pid == "C15" and not fn.startswith("decl_")):
                continue
            if tier != "thorough" and pid != "C16" and fn not in ("query_c.rs", "decl_b.rs"):
                continue
            t1 = time.time()
            status, detail = progs.twin_pair(fn[:-3], os.path.join(tdir, fn))
            r = dict(name="twin program %s" % fn, verdict="holds" if status == "agree" else ("inconclusive" if status == "infrastructure" else "violation"),
                     reason="" if status == "agree" else detail, queries=1, paths=1, functions=[], samples=[{"twin": fn, "observed": detail[:200]}],
                     what="a real program whose declaration / queries carry several distinct cfg predicates with mixed truth values (several attributes per item, repeated predicate texts) behaves exactly like its erased twin (program-level metamorphic test through the real __cfg_ecs_* chain and rustc — the half of C16 no solver can reach)",
                     bounds="enumeration of twin programs (auxiliary, not a solver task)", validated_against_impl=1 if status == "agree" else 0,
                     task=dict(kind="witness"), assumes=[], wall_s=time.time() - t1, solver_s=0.0)
            if r["verdict"] == "violation":
                os.makedirs(common.REPLAY_DIR, exist_ok=True)
                path = os.path.join(common.REPLAY_DIR, "%s_twin_%s.json" % (pid, common.sha(fn + detail)))
                with open(path, "w") as f:
                    json.dump({"kind": "e2", "property": pid, "task": {"kind": "twin", "file": os.path.join(tdir, fn)}, "obligation": detail,
                               "how_to_replay": "/verif/check %s --tier quick (rebuilds the twin programs)" % pid}, f, indent=1)
                r["replay_path"] = path
            common.log("%-12s %-48s %5.0fs %s" % (r["verdict"], r["name"], r["wall_s"], r["reason"][:150]))
            results.append(r)
    # C05: negative corpus — programs every query macro must reject at compile time
    if pid == "C05":
        from .mirsym import progs
        t1 = time.time()
        neg = dict(name="negative-corpus: no-match / ambiguous OneOf through all five query macros", verdict="holds", reason="", queries=0, paths=0,
                   what="19 real programs that must be rejected at compile time (query matching no archetype; OneOf matching two components of one archetype — arity 2, and arity 3 with the two owned members not adjacent, both orders, with a preceding plain parameter) x ecs_find!, ecs_find_borrow!, ecs_iter!, ecs_iter_borrow!, ecs_iter_destroy!",
                   bounds="enumeration of 19 programs (not a solver task): the compile-error half of C05, observed on the real macros", functions=[], samples=[], validated_against_impl=0,
                   task=dict(kind="negative"), assumes=[], wall_s=0.0, solver_s=0.0)
        bad = []
        for kind, needle in (("nomatch", "query matched no archetypes"), ("ambiguous", "ambiguous"), ("ambiguous3", "ambiguous"), ("ambiguous3r", "ambiguous"), ("ambiguous3p", "ambiguous")):
            for mac in (("ecs_find", "ecs_find_borrow", "ecs_iter", "ecs_iter_borrow", "ecs_iter_destroy") if kind in ("nomatch", "ambiguous", "ambiguous3") else ("ecs_iter", "ecs_find")):
                mod = "n_%s_%s" % (kind, mac)
                failed, _, err = progs.expect_compile_error("neg_" + mod, progs.negative_module(mod, mac, kind), "")
                neg["queries"] += 1
                if failed and needle in err:
                    neg["validated_against_impl"] += 1
                else:
                    bad.append("%s! accepted a query that must be a compile error (%s)%s" % (mac, kind, "" if not failed else ": rejected with another message: " + err[-200:]))
        if bad:
            neg["verdict"] = "violation"; neg["reason"] = bad[0]; neg["n_violated"] = len(bad)
            os.makedirs(common.REPLAY_DIR, exist_ok=True)
            path = os.path.join(common.REPLAY_DIR, "C05_negative_%s.json" % common.sha(bad[0]))
            with open(path, "w") as f:
                json.dump({"kind": "e2", "property": "C05", "task": {"kind": "negative"}, "obligation": bad, "how_to_replay": "/verif/check C05 --tier quick (rebuilds the programs)"}, f, indent=1)
            neg["replay_path"] = path
        neg["wall_s"] = time.time() - t1
        neg["paths"] = neg["queries"]
        common.log("%-12s %-48s %5.0fs %s" % (neg["verdict"], "negative corpus (19 programs)", neg["wall_s"], neg["reason"][:150]))
        results.append(neg)
    # admission kernel: boundary witnesses through the public API (validates the encoding; a deviation of the real
    # program from the specification while every obligation holds is a violation demonstrated natively)
    for r in results:
        if r["verdict"] == "holds" and r.get("task", {}).get("family") == "admission" and r.get("task", {}).get("dbg"):
            from .mirsym import progs
            pts = [(1 << 24, 1 << 24), ((1 << 24) - 1, (1 << 24) - 1), (0, 0), (3, 5)]
            devs = []
            for ln, cp in pts:
                ran, dev, raw = progs.run_admission(ln, cp)
                if not ran:
                    r["verdict"] = "inconclusive"; r["reason"] = "admission witness program did not run: " + raw[:200]
                    break
                devs += dev
            else:
                r["validated_against_impl"] = len(pts)
                if devs:
                    r["verdict"] = "violation"
                    r["reason"] = "real program deviates from the specification although every MIR obligation holds: " + "; ".join(devs)[:300]
                    r["task"] = dict(r["task"], kind="witness")
                    r["replay_path"] = write_replay(pid, r, None)
    # replay counterexamples natively before they are reported
    for r in results:
        r.pop("validation_cases", None)
        if r["verdict"] == "violation" and r.get("native_harness"):
            from . import replay as rp
            hit = None
            for k in (1, 2, 3):
                runs = rp.native_runs(r["native_harness"], (), True, [[k]], want_miri=False)
                if any(v.get("exit") == 1 for v in runs.values()):
                    hit = (k, runs); break
            if hit:
                r["native"] = {"k": hit[0], "runs": hit[1]}
                r["reason"] += " | native: " + "; ".join("%s: %s" % (a, b["message"]) for a, b in hit[1].items())
                os.makedirs(common.REPLAY_DIR, exist_ok=True)
                path = os.path.join(common.REPLAY_DIR, "%s_native_%s.json" % (pid, common.sha(r["name"] + r["reason"])))
                with open(path, "w") as f:
                    json.dump({"property": pid, "harness": r["native_harness"], "features": [], "debug_assertions": True, "values": [[hit[0]]],
                               "kani_reason": r["reason"], "native_runs": hit[1], "how_to_replay": "/verif/check --replay " + path}, f, indent=1)
                r["replay_path"] = path
            else:
                r["verdict"] = "inconclusive"
                r["reason"] = "MIR unwind fact violated but the native run with a panicking Clone shows no symptom: " + r["reason"]
            continue
        if r["verdict"] == "violation" and r.get("task", {}).get("kind") in ("witness", "negative"):
            continue    # already demonstrated natively on real programs
        if r["verdict"] == "violation":
            ce = r.get("counterexample")
            if ce:
                agree, dis = native_check([ce], "replay_%s" % common.sha(r["name"]))
                r["native"] = {"agree": agree, "disagreements": dis}
                if not dis:
                    r["verdict"] = "inconclusive"
                    r["reason"] = "solver counterexample did not reproduce through the real macro (interpreter/spec suspect): " + r["reason"]
                else:
                    r["replay_path"] = write_replay(pid, r, ce)
                    r["reason"] = r["reason"] + " | real macro: " + dis[0][:200]
            elif r.get("task", {}).get("family") == "admission" and isinstance(r.get("model"), dict) and "len" in r["model"] and "capacity" in r["model"]:
                from .mirsym import progs
                ln, cp = int(r["model"]["len"]), int(r["model"]["capacity"])
                ran, dev, raw = progs.run_admission(ln, cp)
                r["native"] = {"len": ln, "capacity": cp, "ran": ran, "deviations": dev, "output": raw}
                if ran and dev:
                    r["reason"] += " | real program (with_capacity(%d), %d creations): %s" % (cp, ln, "; ".join(dev))
                    r["replay_path"] = write_replay(pid, r, None)
                elif ran:
                    r["verdict"] = "inconclusive"
                    r["reason"] = "solver counterexample (len=%d, capacity=%d) did not reproduce through the public API: %s" % (ln, cp, r["reason"])
                else:
                    r["replay_path"] = write_replay(pid, r, None)
                    r["note"] = "the state of the counterexample could not be built natively (%s); reported on the strength of three solver runs over the MIR" % raw[:200]
            else:
                r["replay_path"] = write_replay(pid, r, None)
                r["note"] = "kernel obligations are decided on the MIR by three solver runs; the counterexample model is recorded, there is no public API to drive the private kernel natively"
    return results


def write_replay(pid, r, ce):
    os.makedirs(common.REPLAY_DIR, exist_ok=True)
    path = os.path.join(common.REPLAY_DIR, "%s_e2_%s.json" % (pid, common.sha(r["name"] + r.get("reason", ""))))
    with open(path, "w") as f:
        json.dump({"kind": "e2", "property": pid, "task": r.get("task"), "obligation": r.get("reason"), "model": r.get("model"),
                   "counterexample": ce, "native": r.get("native"), "how_to_replay": "/verif/check --replay " + path}, f, indent=1, default=str)
    return path


def replay_file(data):
    ce = data.get("counterexample")
    if not ce:
        print("kernel counterexample: model =", data.get("model"))
        print("re-run the check to re-decide the obligation on the current MIR")
        return 2
    agree, dis = native_check([ce], "replay_manual")
    for d in dis:
        print("real macro disagrees with the specification:", d)
    if dis:
        print("VIOLATION property=%s replay=%s" % (data["property"], data.get("how_to_replay", "").split()[-1]))
        return 1
    print("real macro agrees with the specification on this input")
    return 0
