"""R: confirm a solver counterexample against the real build before it is reported."""
import json, os, subprocess, time, re
from . import common, kani, gen_table


import threading
_TABLE_LOCK = threading.Lock()
_NATIVE_LOCK = threading.Lock()


def _values_text(values):
    return "\n".join("".join("%02x" % b for b in v) for v in values) + "\n"


def _build_and_run(harness, features, debug_assertions, release, values_path, tdir, miri=False):
    env = common.base_env()
    env["RUSTFLAGS"] = "--cfg gecs_verif"
    if not release and not debug_assertions:
        env["CARGO_PROFILE_DEV_DEBUG_ASSERTIONS"] = "false"
    cmd = ["cargo"]
    if miri:
        cmd += ["+nightly", "miri", "run"]
        env["MIRIFLAGS"] = "-Zmiri-disable-isolation"
        env.pop("RUSTFLAGS")
        env["RUSTFLAGS"] = "--cfg gecs_verif"
    else:
        cmd += ["run"]
    cmd += ["--offline", "--quiet", "--bin", "replay", "--target-dir", tdir]
    if release:
        cmd += ["--release"]
    if features:
        cmd += ["--features", ",".join(features)]
    cmd += ["--", harness, values_path]
    try:
        p = subprocess.run(cmd, cwd=common.KANI_CRATE, env=env, capture_output=True, text=True, timeout=1800)
    except subprocess.TimeoutExpired:
        return {"exit": None, "message": "timeout"}
    msg = ""
    for line in p.stdout.splitlines():
        if line.startswith("REPLAY:"):
            msg = line
    if miri and "Undefined Behavior" in p.stderr:
        m = re.search(r"error: Undefined Behavior: (.*)", p.stderr)
        return {"exit": 1, "message": "MIRI: Undefined Behavior: " + (m.group(1) if m else "")}
    if p.returncode in (-6, -11, -4, -7, 134, 139, 132, 135):
        # the process died from a signal: abort after a panic inside a destructor during unwinding,
        # segmentation fault, ... — that IS a reproduced symptom (C10 observes process aborts)
        tail = [l for l in p.stderr.strip().splitlines() if "panicked" in l or "abort" in l.lower() or "signal" in l.lower()]
        return {"exit": 1, "message": "REPLAY: FAILED: process terminated by a signal (status %s): %s" % (p.returncode, " | ".join(tail[-3:])[:300])}
    if not msg:
        msg = (p.stderr.strip().splitlines() or ["(no output)"])[-1][:300]
    return {"exit": p.returncode, "message": msg}


def native_runs(harness, features, debug_assertions, values, want_miri=False):
    root = common.scratch_root()
    os.makedirs(os.path.join(root, "replay"), exist_ok=True)
    vpath = os.path.join(root, "replay", "values_%s.txt" % common.sha(harness + repr(values)))
    with open(vpath, "w") as f:
        f.write(_values_text(values))
    tdir = os.path.join(root, "target_replay")
    with _TABLE_LOCK:
        gen_table.generate()
    runs = {}
    with _NATIVE_LOCK:      # one native build at a time (shared target dir)
        runs["dev"] = _build_and_run(harness, features, debug_assertions, False, vpath, tdir)
        runs["release"] = _build_and_run(harness, features, debug_assertions, True, vpath, tdir)
        if want_miri and runs["dev"]["exit"] != 1 and runs["release"]["exit"] != 1:
            runs["miri"] = _build_and_run(harness, features, debug_assertions, False, vpath, os.path.join(root, "target_miri"), miri=True)
    return runs


def confirm(pid, result):
    """Re-runs the failing harness with concrete playback, replays the values natively (dev and
    release profile; Miri for UB classes without a native symptom) and writes a replay file."""
    job = result.job
    root = common.scratch_root()
    conf = {"reproduced": False, "note": "", "replay_path": ""}
    failing = result.failed[0] if result.failed else None
    if failing is None and job.native_oracle and result.expected_hit:
        failing = result.expected_hit[0]
    if getattr(result, "macro_diagnostic", ""):
        # the harness crate itself must fail to build natively with the same macro diagnostic
        env = common.base_env(); env["RUSTFLAGS"] = "--cfg gecs_verif"
        cmd = ["cargo", "build", "--offline", "--lib", "--target-dir", os.path.join(root, "target_replay")]
        if job.features:
            cmd += ["--features", ",".join(job.features)]
        with _NATIVE_LOCK:
            p = subprocess.run(cmd, cwd=common.KANI_CRATE, env=env, capture_output=True, text=True, timeout=1800)
        same = p.returncode != 0 and result.macro_diagnostic[:60] in p.stderr
        conf["reproduced"] = same
        conf["note"] = "native build of the corpus: " + ("fails with the same macro diagnostic" if same else "does not show the diagnostic")
        conf["kind"] = "macro-rejects-valid-program"
        conf["replay_path"] = _write_replay(pid, job, None, None, {"native_build": {"exit": p.returncode, "message": result.macro_diagnostic}}, result.reason)
        return conf
    if failing is None:
        # e.g. an expected clean panic that was not raised: there is no trace to replay; the
        # verdict itself (solver: the panic is unreachable for every input) is the evidence.
        conf["note"] = result.reason
        conf["reproduced"] = True
        conf["kind"] = "expected-panic-unreachable"
        conf["replay_path"] = _write_replay(pid, job, None, None, {}, result.reason)
        return conf
    tdir = os.path.join(root, "target_playback_%s" % common.sha(job.key))
    log = os.path.join(root, "logs", "playback_" + re.sub(r"[^A-Za-z0-9_.+-]", "_", job.key) + ".log")
    os.makedirs(os.path.dirname(log), exist_ok=True)
    pb = kani.run_job(job, tdir, log, playback=True)
    block = None
    for b in pb.playback:
        if b["class"] != "cover" and (b["description"] in failing.description or failing.description in b["description"]):
            block = b
            break
    if block is None:
        for b in pb.playback:
            if b["class"] != "cover":
                block = b
                break
    if block is None:
        conf["note"] = "Kani produced no concrete playback values for the failing check"
        return conf
    # Miri is the last resort whenever the plain native runs show no symptom: standard-level UB (wrong
    # layout handed to realloc/dealloc, out-of-bounds pointer that hits mapped memory, ...) has none.
    runs = native_runs(job.harness, job.features, job.debug_assertions, block["values"], want_miri=True)
    conf["runs"] = runs
    conf["reproduced"] = any(r.get("exit") == 1 for r in runs.values())
    conf["note"] = "; ".join("%s: %s" % (k, v["message"]) for k, v in runs.items())
    conf["replay_path"] = _write_replay(pid, job, failing, block, runs, result.reason)
    return conf


def _write_replay(pid, job, failing, block, runs, reason):
    os.makedirs(common.REPLAY_DIR, exist_ok=True)
    name = "%s_%s_%s.json" % (pid, job.harness.replace("::", "."), common.sha(job.key + reason))
    path = os.path.join(common.REPLAY_DIR, name)
    data = {
        "property": pid,
        "harness": job.harness,
        "features": list(job.features),
        "debug_assertions": job.debug_assertions,
        "stubbing": job.stubbing,
        "kani_reason": reason,
        "failing_check": None if failing is None else {
            "class": failing.klass, "description": failing.description,
            "function": failing.function, "location": failing.location},
        "values": None if block is None else block["values"],
        "native_runs": runs,
        "how_to_replay": "/verif/check --replay " + path,
    }
    with open(path, "w") as f:
        json.dump(data, f, indent=1)
    return path


def replay_file(path):
    with open(path) as f:
        data = json.load(f)
    if data.get("kind") == "e2":
        from . import e2
        return e2.replay_file(data)
    if data.get("values") is None:
        print("no recorded values (expected-panic harness): re-run the check to re-decide it")
        return 2
    runs = native_runs(data["harness"], tuple(data.get("features", ())), data.get("debug_assertions", True),
                       data["values"], want_miri=True)
    rc = 0
    for k, v in runs.items():
        print("%s: exit=%s %s" % (k, v["exit"], v["message"]))
        if v["exit"] == 1:
            rc = 1
    if rc == 1:
        print("VIOLATION property=%s replay=%s" % (data["property"], path))
    return rc
