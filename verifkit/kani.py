"""E1: run Kani proof harnesses of /verif/kani_gecs against /repo's working tree and read the verdict."""
import os, re, shutil, signal, subprocess, time, threading, queue
from dataclasses import dataclass, field
from typing import List, Optional, Tuple

from . import common

# Descriptions of failed checks that are *bounds* of the harness, not verdicts on the code.
BOUND_MARKERS = ("unwinding assertion", "HARNESS-BOUND", "capacity differs from the model's")

# Check classes that are memory-safety / UB classes (never allowed to fail anywhere).
UB_CLASSES = ("pointer_dereference", "array_bounds", "unreachable", "pointer_arithmetic", "pointer",
              "bounds", "overflow", "division-by-zero", "precondition_instance", "assume",
              "safety_check", "unsupported_construct", "NaN", "enum-range-check", "undefined-shift")


@dataclass
class Job:
    """One Kani harness in one configuration."""
    harness: str                      # fully qualified, e.g. c01::c01_base_foo_1
    tier: str = "quick"               # lowest tier that includes it
    features: Tuple[str, ...] = ()
    debug_assertions: bool = True
    stubbing: bool = False
    timeout: int = 1500
    mem_kb: int = 20_000_000
    # failed checks allowed to fail: list of (description substring, function substring)
    allowed: Tuple[Tuple[str, str], ...] = ()
    # failed checks that MUST fail (expected clean panic), same shape
    expect_fail: Tuple[Tuple[str, str], ...] = ()
    native_oracle: bool = False       # an ALLOWED panic, when reachable, is replayed natively where the unwinding is caught and the oracle decides
    role: str = ""                    # stable key for known-findings matching
    what: str = ""                    # one line: what this harness decides
    bounds: str = ""                  # stated bounds
    assumes: Tuple[str, ...] = ()     # assumptions / stubs that are part of the claim
    cost: int = 60                    # rough seconds, for scheduling (longest first)

    @property
    def key(self):
        f = "+".join(self.features) or "default"
        return "%s[%s,%s]" % (self.harness, f, "dbg" if self.debug_assertions else "nodbg")


@dataclass
class Check:
    number: int
    name: str
    klass: str
    status: str
    description: str
    location: str
    function: str


@dataclass
class KaniResult:
    job: Job
    verdict: str = "inconclusive"     # holds | violation | inconclusive
    reason: str = ""
    wall_s: float = 0.0
    verification_s: float = 0.0
    solver_s: float = 0.0
    symex_s: float = 0.0
    n_checks: int = 0
    n_failed: int = 0
    n_unreachable: int = 0
    covers: List[Tuple[str, str]] = field(default_factory=list)   # (message, status)
    failed: List[Check] = field(default_factory=list)              # unexpected failed checks
    expected_hit: List[Check] = field(default_factory=list)
    bound_failures: List[Check] = field(default_factory=list)
    functions: List[str] = field(default_factory=list)            # gecs functions with checks
    stubs: List[str] = field(default_factory=list)
    log_path: str = ""
    sat_vars: int = 0
    sat_clauses: int = 0
    program_steps: int = 0
    playback: List[dict] = field(default_factory=list)            # concrete playback blocks
    macro_diagnostic: str = ""                                    # gecs macro error on a valid corpus program


CHECK_RE = re.compile(r"^Check (\d+): (.*)$")


def parse_output(text, job) -> KaniResult:
    r = KaniResult(job=job)
    checks = []
    lines = text.splitlines()
    i = 0
    n = len(lines)
    while i < n:
        m = CHECK_RE.match(lines[i])
        if m and i + 2 < n and "- Status:" in lines[i + 1]:
            number = int(m.group(1))
            name = m.group(2).strip()
            status = lines[i + 1].split("Status:", 1)[1].strip()
            desc = ""
            loc = ""
            j = i + 2
            if j < n and "- Description:" in lines[j]:
                desc = lines[j].split("Description:", 1)[1].strip()
                # multi-line descriptions
                j += 1
                while j < n and "- Location:" not in lines[j] and lines[j].strip() and not CHECK_RE.match(lines[j]):
                    desc += " " + lines[j].strip()
                    j += 1
            if j < n and "- Location:" in lines[j]:
                loc = lines[j].split("Location:", 1)[1].strip()
            func = loc.split(" in function ", 1)[1] if " in function " in loc else ""
            parts = name.rsplit(".", 2)
            klass = parts[-2] if len(parts) >= 3 else ""
            checks.append(Check(number, name, klass, status, desc.strip('"'), loc, func))
            i = j + 1
            continue
        i += 1

    r.n_checks = len([c for c in checks if c.klass != "cover"])
    for c in checks:
        if c.klass == "cover":
            r.covers.append((c.description, c.status))
    funcs = set()
    for c in checks:
        if c.location.startswith("/repo/") or "/repo/" in c.location.split(":")[0]:
            if c.function:
                funcs.add(c.function)
    r.functions = sorted(funcs)

    for m in re.finditer(r"^\s*- Stub: (.*)$", text, re.M):
        r.stubs.append(m.group(1).strip())
    m = re.search(r"Verification Time: ([0-9.]+)s", text)
    if m:
        r.verification_s = float(m.group(1))
    r.solver_s = sum(float(x) for x in re.findall(r"Runtime decision procedure: ([0-9.]+)s", text))
    r.symex_s = sum(float(x) for x in re.findall(r"Runtime Symex: ([0-9.]+)s", text))
    m = re.search(r"(\d+) variables, (\d+) clauses", text)
    if m:
        r.sat_vars, r.sat_clauses = int(m.group(1)), int(m.group(2))
    m = re.search(r"size of program expression: (\d+) steps", text)
    if m:
        r.program_steps = int(m.group(1))
    m = re.search(r"\*\* (\d+) of (\d+) failed(?: \((\d+) unreachable\))?", text)
    if m:
        r.n_failed = int(m.group(1))
        if m.group(3):
            r.n_unreachable = int(m.group(3))

    # concrete playback blocks
    for blk in re.finditer(r"/// Check for `(\w+)`: \"(.*?)\"\s*\n(.*?)kani::concrete_playback_run", text, re.S):
        vals = []
        for vm in re.finditer(r"vec!\[([0-9, ]*)\],", blk.group(3)):
            body = vm.group(1).strip()
            vals.append([int(x) for x in body.split(",") if x.strip()] if body else [])
        r.playback.append({"class": blk.group(1), "description": blk.group(2).strip('"'), "values": vals})

    def matches(c, pats):
        for d, f in pats:
            if pat_match(c, d, f):
                return True
        return False

    failed = [c for c in checks if c.status in ("FAILURE", "FAILED") and c.klass != "cover"]
    undetermined = [c for c in checks if c.status == "UNDETERMINED" and c.klass != "cover"]
    for c in failed:
        if any(b in c.description for b in BOUND_MARKERS):
            r.bound_failures.append(c)
        elif matches(c, job.expect_fail):
            r.expected_hit.append(c)
        elif matches(c, job.allowed):
            r.expected_hit.append(c)
        else:
            r.failed.append(c)

    has_verdict_line = "VERIFICATION:- SUCCESSFUL" in text or "VERIFICATION:- FAILED" in text
    if not has_verdict_line:
        r.verdict = "inconclusive"
        if "error: could not compile" in text or "error[E" in text or re.search(r"^error", text, re.M):
            r.reason = "harness or repository does not compile under Kani"
            # A diagnostic of the gecs macros themselves on one of OUR corpus programs (which are valid by
            # construction and compile on the pinned tree) is a verdict on the macro, not an infrastructure
            # problem: the real macro now REJECTS a valid program. Confirmed natively by the runner.
            m = re.search(r"^error: ((?:query matched no archetypes in world|OneOf parameter is ambiguous|attribute id \d+ is already assigned|attribute id may not exceed 255|cfg attributes not currently supported)[^\n]*)\n\s*--> (src/(c05|c15|c16)\.rs:\d+)", text, re.M)
            if m and job.harness.split("::")[0] in ("c05", "c15", "c16"):
                r.verdict = "violation"
                r.macro_diagnostic = m.group(1)
                r.reason = "the real macro rejects a valid corpus program at %s: %s" % (m.group(2), m.group(1)[:160])
            elif job.harness.split("::")[0] in ("c05", "c15", "c16"):
                # The corpus programs are valid by construction and compile on the pinned tree. If, after a change of
                # /repo, rustc rejects the EXPANSION of corpus programs and of nothing else in the harness crate (every
                # error is located in a corpus file), the generated code no longer fits the user's closure: a parameter
                # is bound to a column/handle of another type. Confirmed by a native build. Errors anywhere else in the
                # crate (an API change) keep the verdict inconclusive.
                locs = re.findall(r"^(error(?:\[E\d+\])?: [^\n]*)\n\s*--> (\S+?):(\d+)", text, re.M)
                locs = [(msg, f, ln) for msg, f, ln in locs if not msg.startswith("error: could not compile")]
                if locs and all(f in ("src/c05.rs", "src/c15.rs", "src/c16.rs") for _, f, _ in locs):
                    r.verdict = "violation"
                    r.macro_diagnostic = locs[0][0]
                    r.reason = "a valid corpus program no longer compiles after macro expansion (%d errors, all in the corpus, first at %s:%s): %s" % (len(locs), locs[0][1], locs[0][2], locs[0][0][:160])
        elif "CBMC failed" in text or "Status: ERROR" in text or "out of memory" in text.lower():
            r.reason = "CBMC error / out of memory"
        else:
            r.reason = "no verdict line in Kani output"
        return r
    if "CBMC failed" in text or "- Status: ERROR" in text:
        r.verdict = "inconclusive"
        r.reason = "CBMC reported an error status"
        return r
    if r.failed:
        r.verdict = "violation"
        c = r.failed[0]
        r.reason = "failed check [%s] %s @ %s" % (c.klass, c.description, c.function or c.location)
        return r
    if r.bound_failures:
        r.verdict = "inconclusive"
        r.reason = "bound exceeded: " + r.bound_failures[0].description
        return r
    if undetermined:
        r.verdict = "inconclusive"
        r.reason = "undetermined checks (unwinding?)"
        return r
    # expected clean panics must be reached
    for d, f in job.expect_fail:
        if not any(pat_match(c, d, f) for c in r.expected_hit):
            r.verdict = "violation"
            r.reason = "expected clean panic not raised: %s in %s" % (d, f)
            return r
    # cover witnesses: "UNREACHABLE:" covers must NOT be satisfied, all others must be
    for msg, status in r.covers:
        if msg.startswith("UNREACHABLE:"):
            if status == "SATISFIED":
                r.verdict = "violation"
                r.reason = "code after an expected panic is reachable: " + msg
                return r
        elif status == "UNREACHABLE" and job.expect_fail:
            continue    # expected-panic harness: everything behind the panic is unreachable by design
        elif status == "UNREACHABLE" and job.native_oracle and r.expected_hit:
            continue    # the allowed panic is reachable and may cut the witness off: the native oracle decides what it leaves behind
        elif status != "SATISFIED":
            r.verdict = "inconclusive"
            r.reason = "vacuity witness not satisfied: %s (%s)" % (msg, status)
            return r
    r.verdict = "holds"
    return r


def pat_match(c, d, f):
    """(description substring, function substring); a description of the form "d1@f1||d2@f2" lists ALTERNATIVES
    (the same documented panic raised in another way), any one of which matches."""
    if "||" in d:
        for alt in d.split("||"):
            dd, _, ff = alt.partition("@")
            if dd in c.description and ff in (c.function + " " + c.location):
                return True
        return False
    return d in c.description and f in (c.function + " " + c.location)


def kani_command(job: Job, target_dir: str, playback: bool = False):
    cmd = ["cargo", "kani", "--harness", job.harness, "--exact", "--target-dir", target_dir]
    if job.features:
        cmd += ["--features", ",".join(job.features)]
    if job.stubbing:
        cmd += ["-Z", "stubbing"]
    if playback:
        cmd += ["-Z", "concrete-playback", "--concrete-playback=print"]
    return cmd


def kani_env(job: Job, playback: bool = False):
    env = common.base_env()
    # playback re-runs build a trace per failing check AND per satisfied cover: drop the covers there
    env["RUSTFLAGS"] = "--cfg gecs_verif" + (" --cfg verif_nocover" if playback else "")
    if not job.debug_assertions:
        env["CARGO_PROFILE_DEV_DEBUG_ASSERTIONS"] = "false"
    else:
        env.pop("CARGO_PROFILE_DEV_DEBUG_ASSERTIONS", None)
    return env


def run_job(job: Job, target_dir: str, log_path: str, playback: bool = False) -> KaniResult:
    cmd = kani_command(job, target_dir, playback)
    shell = "ulimit -v %d; exec %s" % (job.mem_kb * (2 if playback else 1), " ".join("'%s'" % c for c in cmd))
    t0 = time.time()
    with open(log_path, "w") as lf:
        p = subprocess.Popen(["bash", "-c", shell], cwd=common.KANI_CRATE, env=kani_env(job, playback),
                             stdout=lf, stderr=subprocess.STDOUT, start_new_session=True)
        common.register_child(p)
        timed_out = False
        try:
            p.wait(timeout=job.timeout * (3 if playback else 1))
        except subprocess.TimeoutExpired:
            timed_out = True
            try:
                os.killpg(p.pid, signal.SIGKILL)
            except Exception:
                pass
            p.wait()
        finally:
            common.unregister_child(p)
    wall = time.time() - t0
    with open(log_path, errors="replace") as f:
        text = f.read()
    if timed_out:
        r = KaniResult(job=job, verdict="inconclusive", reason="timeout after %ds" % job.timeout)
    else:
        r = parse_output(text, job)
        if r.verdict == "inconclusive" and not r.reason:
            r.reason = "exit status %s" % p.returncode
    r.wall_s = wall
    r.log_path = log_path
    return r


def seed_target(job: Job, seed_dir: str, log_path: str) -> bool:
    """Compiles the dependency graph (proc-macro crates, gecs, harness crate) once, no CBMC."""
    cmd = kani_command(job, seed_dir) + ["--only-codegen"]
    with open(log_path, "w") as lf:
        p = subprocess.Popen(cmd, cwd=common.KANI_CRATE, env=kani_env(job), stdout=lf,
                             stderr=subprocess.STDOUT, start_new_session=True)
        common.register_child(p)
        try:
            p.wait(timeout=900)
        except subprocess.TimeoutExpired:
            os.killpg(p.pid, signal.SIGKILL)
            p.wait()
        finally:
            common.unregister_child(p)
    return p.returncode == 0


def run_jobs(jobs: List[Job], workers: int, on_done=None) -> List[KaniResult]:
    """Runs jobs on a pool of workers, each with its own target dir (copied from one warm build)."""
    root = common.scratch_root()
    logs = os.path.join(root, "logs")
    os.makedirs(logs, exist_ok=True)
    jobs = sorted(jobs, key=lambda j: -j.cost)
    workers = max(1, min(workers, len(jobs)))
    results = [None] * len(jobs)
    q = queue.Queue()
    for idx, j in enumerate(jobs):
        q.put((idx, j))

    def log_name(j):
        return os.path.join(logs, re.sub(r"[^A-Za-z0-9_.+-]", "_", j.key) + ".log")

    seed_dir = os.path.join(root, "seed_target")
    if workers > 1 and not os.path.isdir(seed_dir):
        t0 = time.time()
        ok = seed_target(jobs[-1], seed_dir, os.path.join(logs, "_seed.log"))
        common.log("seed build %s in %.0fs" % ("ok" if ok else "FAILED (workers build on their own)", time.time() - t0))
        if not ok:
            shutil.rmtree(seed_dir, ignore_errors=True)

    def worker(wid):
        tdir = os.path.join(root, "target_%d" % wid)
        if os.path.isdir(seed_dir) and not os.path.isdir(tdir):
            shutil.copytree(seed_dir, tdir, symlinks=True)
        while True:
            try:
                idx, job = q.get_nowait()
            except queue.Empty:
                return
            r = run_job(job, tdir, log_name(job))
            results[idx] = r
            if on_done:
                on_done(r)

    threads = [threading.Thread(target=worker, args=(w,), daemon=True) for w in range(workers)]
    for t in threads:
        t.start()
    for t in threads:
        t.join()
    return [r for r in results if r is not None]
