"""Writes /verif/evidence/<id>.json from what a run actually covered."""
import json, os
from . import common


def write(pid, tier, results, e2_results, outcome, wall):
    os.makedirs(common.EVIDENCE_DIR, exist_ok=True)
    harnesses = []
    functions = set()
    stubs = set()
    assumes = set()
    bounds = set()
    checks = 0
    covers_sat = 0
    solver_s = 0.0
    symex_s = 0.0
    nontrivial = 0
    samples = []
    for r in results:
        sat = [m for m, s in r.covers if s == "SATISFIED" and not m.startswith("UNREACHABLE:")]
        harnesses.append({
            "harness": r.job.key, "verdict": r.verdict, "reason": r.reason, "what": r.job.what,
            "bounds": r.job.bounds, "cbmc_checks": r.n_checks, "unreachable_checks": r.n_unreachable,
            "expected_clean_panics_hit": sorted(set(c.description for c in r.expected_hit)),
            "covers": [{"witness": m, "status": s} for m, s in r.covers],
            "program_steps": r.program_steps, "sat_variables": r.sat_vars, "sat_clauses": r.sat_clauses,
            "symex_s": round(r.symex_s, 2), "solver_s": round(r.solver_s, 2),
            "verification_s": round(r.verification_s, 1), "wall_s": round(r.wall_s, 1),
            "stubs": r.stubs,
        })
        functions.update(r.functions)
        stubs.update(r.stubs)
        assumes.update(r.job.assumes)
        if r.job.bounds:
            bounds.add(r.job.bounds)
        if r.verdict in ("holds", "violation"):
            checks += r.n_checks
            covers_sat += len(sat)
            solver_s += r.solver_s
            symex_s += r.symex_s
        # non-trivial: decided by the solver AND witnessed non-vacuous (>=1 cover satisfied or an expected panic reached)
        if r.verdict == "holds" and (sat or r.expected_hit):
            nontrivial += 1
            if len(samples) < 12:
                samples.append({"harness": r.job.key, "decides": r.job.what,
                                "witnessed_pre_state_classes": sat[:6],
                                "expected_clean_panics_reached": sorted(set(c.description for c in r.expected_hit))[:3],
                                "cbmc_checks_discharged": r.n_checks})
    e2_queries = 0
    e2_paths = 0
    e2_solver = 0.0
    e2_list = []
    for er in e2_results:
        e2_list.append({k: er.get(k) for k in ("name", "verdict", "reason", "what", "bounds", "functions", "paths",
                                                "queries", "solver_s", "solvers", "modelled_callees", "wall_s", "validated_against_impl")})
        functions.update(er.get("functions", []))
        assumes.update(er.get("assumes", []))
        if er.get("bounds"):
            bounds.add(er["bounds"])
        if er["verdict"] == "holds":
            e2_queries += er.get("queries", 0)
            e2_paths += er.get("paths", 0)
            e2_solver += er.get("solver_s", 0.0)
            if er.get("queries", 0) > 0:
                nontrivial += 1
            for s in er.get("samples", [])[:3]:
                if len(samples) < 16:
                    samples.append(s)
    if not samples:
        samples = [{"note": "no task reached a verdict in this run", "tasks": [h["harness"] for h in harnesses][:5]}]

    viol = len(outcome["violations"])
    ev = {
        "property_id": pid,
        "tier": tier,
        "seed": common.seed(),
        "level": "model_checking",
        "coverage": {
            "evaluations": max(1, checks + e2_queries),
            "distinct_nontrivial": nontrivial,
            "rule": ("evaluations = solver obligations discharged in this run: CBMC properties (assertions, pointer/"
                     "bounds/unreachable checks, unwinding assertions) of every Kani harness that reached a verdict, plus SMT "
                     "queries of the MIR encodings. distinct_nontrivial = tasks (distinct harness x configuration, or E2 "
                     "obligation family) that were decided 'holds' AND are witnessed non-vacuous (at least one kani::cover! "
                     "pre-state class SATISFIED / the expected clean panic reached / at least one SMT query discharged). "
                     "Each task quantifies over ALL values of its symbolic inputs within the stated bounds."),
            "samples": samples,
            "exhaustive": False,
            "technique": "bounded symbolic execution of the real code + SAT/SMT (Kani/CBMC/cadical; MIR->SMT-LIB with z3+cvc5)",
            "harnesses": harnesses,
            "e2_obligations": e2_list,
            "functions_encoded": sorted(functions),
            "bounds": sorted(bounds),
            "stubs": sorted(stubs),
            "kani_cover_witnesses_satisfied": covers_sat,
            "cbmc_checks_discharged": checks,
            "smt_queries_discharged": e2_queries,
            "mir_paths_explored": e2_paths,
            "solver_time_s": round(solver_s + e2_solver, 1),
            "symex_time_s": round(symex_s, 1),
            "tasks_total": len(results) + len(e2_results),
            "tasks_held": len(outcome["held"]),
            "tasks_inconclusive": len(outcome["inconclusive"]),
            "known_findings_matched": [kf["what"] for _, kf, _ in outcome["known"]],
            "inconclusive": [str(why) for _, why in outcome["inconclusive"]],
        },
        "assumptions": sorted(assumes) + [
            "trusted base: rustc, Kani 0.68, CBMC 6.11 + cadical, z3/cvc5, the MIR printer, the cfg(gecs_verif) hooks, the ghost Model/Inv",
            "bounded claim: nothing is asserted outside the bounds listed in coverage.bounds",
        ],
        "wall_s": round(wall, 1),
        "violations": viol,
    }
    path = os.path.join(common.EVIDENCE_DIR, pid + ".json")
    with open(path, "w") as f:
        json.dump(ev, f, indent=1)
    return path
