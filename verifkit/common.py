import atexit, os, shutil, signal, sys, tempfile, time, json, hashlib

VERIF = os.path.dirname(os.path.dirname(os.path.abspath(__file__)))
REPO = os.environ.get("GECS_REPO", "/repo")
KANI_CRATE = os.environ.get("VERIF_KANI_CRATE") or os.path.join(VERIF, "kani_gecs")
EVIDENCE_DIR = os.path.join(VERIF, "evidence")
REPLAY_DIR = os.path.join(VERIF, "replays")
KNOWN_FINDINGS = os.path.join(VERIF, "known_findings.json")

_scratch = None
_children = set()


def scratch_root():
    """Scratch directory outside /repo and /verif, removed when the process ends."""
    global _scratch
    if _scratch is None:
        base = os.environ.get("VERIF_SCRATCH_BASE", "/var/tmp")
        os.makedirs(base, exist_ok=True)
        _scratch = tempfile.mkdtemp(prefix="gecs_verif_", dir=base)
        atexit.register(cleanup)
        for sig in (signal.SIGTERM, signal.SIGINT, signal.SIGHUP):
            signal.signal(sig, _on_signal)
    return _scratch


def register_child(p):
    _children.add(p)


def unregister_child(p):
    _children.discard(p)


def cleanup():
    global _scratch
    for p in list(_children):
        try:
            os.killpg(p.pid, signal.SIGKILL)
        except Exception:
            pass
    if _scratch and os.path.isdir(_scratch) and not os.environ.get("VERIF_KEEP_SCRATCH"):
        shutil.rmtree(_scratch, ignore_errors=True)
    _scratch = None


def _on_signal(signum, frame):
    cleanup()
    sys.exit(2)


def base_env():
    env = dict(os.environ)
    env["CARGO_NET_OFFLINE"] = "true"
    env.pop("CARGO_TARGET_DIR", None)
    env.pop("RUSTC_WRAPPER", None)
    return env


def seed():
    try:
        return int(os.environ.get("VERIF_SEED", "0"))
    except ValueError:
        return 0


def sha(text):
    return hashlib.sha256(text.encode()).hexdigest()[:12]


def log(msg):
    sys.stderr.write("[verif %s] %s\n" % (time.strftime("%H:%M:%S"), msg))
    sys.stderr.flush()
