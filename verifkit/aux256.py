"""Auxiliary observation for C17 / C19 (NOT a solver task): a real program whose world declares the MAXIMUM of 256
archetypes, built with feature `events`, run in the dev profile (overflow checks on) and in release. A Kani harness over
such a world did not get past CBMC's instrumentation in 40 minutes (DESIGN §12.2), so the `u8` archetype cursor of the
generated world-level event iterator is outside the bounds of the solver-based harnesses (3 archetypes); this program
observes that one boundary on the real build. One concrete program: an observation, not a proof of anything else."""
import json, os, subprocess, time
from . import common

CARGO = """[package]
name = "aux256"
version = "0.0.0"
edition = "2021"
publish = false
[dependencies]
gecs = { path = "%s", features = ["events"] }
[workspace]
[profile.release]
overflow-checks = false
"""


def program():
    out = ["#![allow(unused)]", "use gecs::prelude::*;", "pub struct KC(pub u8);", "ecs_world! {", "    ecs_name!(WBig);"]
    for i in range(256):
        out.append("    ecs_archetype!(K%03d, KC);" % i)
    out.append("}")
    out.append("""
fn drive(first: bool, mid: bool, last: bool, destroyed: bool) -> Result<(), String> {
    let mut world = WBig::new();
    let mut exp: Vec<EntityAny> = Vec::new();
    if first { let e = world.create::<K000>((KC(1),)); if destroyed { world.destroy(e); } exp.push(e.into_any()); }
    if mid { let e = world.create::<K128>((KC(2),)); if destroyed { world.destroy(e); } exp.push(e.into_any()); }
    if last { let e = world.create::<K255>((KC(3),)); if destroyed { world.destroy(e); } exp.push(e.into_any()); }
    let got: Vec<EntityAny> = if destroyed { world.iter_destroyed().copied().collect() } else { world.iter_created().copied().collect() };
    if got != exp { return Err(format!("events {:?} expected {:?}", got, exp)); }
    let mut it = world.iter_created();
    let n = exp.len(); // every creation is logged, whether or not the entity was destroyed afterwards
    if it.size_hint() != (n, Some(n)) { return Err(format!("size_hint {:?} expected {}", it.size_hint(), n)); }
    for _ in 0..n + 2 { let _ = it.next(); }
    if it.next().is_some() || it.size_hint() != (0, Some(0)) { return Err("an exhausted iterator yields again / inexact size_hint".into()); }
    if world.iter_destroyed().count() != if destroyed { exp.len() } else { 0 } { return Err("count()".into()); }
    Ok(())
}
fn main() {
    let mut bad = 0;
    for bits in 0..16u8 {
        let (f, m, l, d) = (bits & 1 != 0, bits & 2 != 0, bits & 4 != 0, bits & 8 != 0);
        let r = std::panic::catch_unwind(|| drive(f, m, l, d));
        match r {
            Ok(Ok(())) => {}
            Ok(Err(e)) => { println!("DEVIATION first={} mid={} last={} destroyed={}: {}", f, m, l, d, e); bad += 1; }
            Err(p) => { let msg = p.downcast_ref::<&str>().map(|s| s.to_string()).or_else(|| p.downcast_ref::<String>().cloned()).unwrap_or_default();
                        println!("DEVIATION first={} mid={} last={} destroyed={}: panic: {}", f, m, l, d, msg); bad += 1; }
        }
    }
    println!("DONE {}", bad);
}
""")
    return "\n".join(out)


def run(pid):
    t0 = time.time()
    root = os.path.join(common.scratch_root(), "aux256")
    os.makedirs(os.path.join(root, "src"), exist_ok=True)
    open(os.path.join(root, "Cargo.toml"), "w").write(CARGO % common.REPO)
    lock = os.path.join(common.REPO, "Cargo.lock")
    if os.path.exists(lock):
        import shutil
        shutil.copy(lock, os.path.join(root, "Cargo.lock"))
    open(os.path.join(root, "src", "main.rs"), "w").write(program())
    env = common.base_env()
    env["CARGO_TARGET_DIR"] = os.path.join(root, "target")
    env.pop("RUSTFLAGS", None)
    res = dict(name="aux: real program over a world declaring all 256 archetypes (events; dev + release)", verdict="holds", reason="", queries=0, paths=32,
               what="auxiliary observation, not a solver task: events in every subset of {first, 128th, last} archetype of a 256-archetype world, created and destroyed logs; the world-level iterators yield exactly the logged handles, then None, exact size_hint, no arithmetic panic at the u8 cursor's boundary; identical in the dev profile (overflow checks on) and in release",
               bounds="one real program, 16 event placements x 2 profiles (enumeration; the solver-based harnesses cover 3 archetypes, 256 are outside their reach: DESIGN §12.2)",
               functions=[], samples=[], validated_against_impl=1, task=dict(kind="aux256"), assumes=[], solver_s=0.0)
    dev = []
    try:
        for prof in ([], ["--release"]):
            p = subprocess.run(["cargo", "run", "--offline", "--quiet"] + prof, cwd=root, env=env, capture_output=True, text=True, timeout=1500)
            label = "release" if prof else "dev"
            if "DONE" not in p.stdout:
                res["verdict"] = "inconclusive"
                res["reason"] = "the 256-archetype program did not build/run (%s): %s" % (label, p.stderr[-300:].replace("\n", " "))
                res["wall_s"] = time.time() - t0
                return res
            dev += ["%s: %s" % (label, l) for l in p.stdout.splitlines() if l.startswith("DEVIATION")]
    except subprocess.TimeoutExpired:
        res["verdict"] = "inconclusive"; res["reason"] = "timeout building the 256-archetype program"
        res["wall_s"] = time.time() - t0
        return res
    if dev:
        res["verdict"] = "violation"
        res["reason"] = "real program over a 256-archetype world: " + dev[0][:300]
        res["n_violated"] = len(dev)
        os.makedirs(common.REPLAY_DIR, exist_ok=True)
        path = os.path.join(common.REPLAY_DIR, "%s_aux256_%s.json" % (pid, common.sha(dev[0])))
        with open(path, "w") as f:
            json.dump({"kind": "e2", "property": pid, "task": {"kind": "aux256"}, "obligation": dev,
                       "how_to_replay": "/verif/check %s --tier quick (rebuilds and re-runs the 256-archetype program)" % pid}, f, indent=1)
        res["replay_path"] = path
        res["native"] = {"deviations": dev[:8]}
    res["samples"] = [{"deviations": dev[:3]}]
    res["wall_s"] = time.time() - t0
    common.log("%-12s %-48s %5.0fs %s" % (res["verdict"], "aux: 256-archetype program", res["wall_s"], res["reason"][:150]))
    return res
