"""Runner machinery for solver-based checking of recatek/gecs (see /verif/DESIGN.md)."""
