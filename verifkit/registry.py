"""Which harnesses decide which property, in which tier and configuration."""
from .kani import Job

Q, T = "quick", "thorough"

INV_ASSUME = "pre-state = arbitrary storage satisfying the representation invariant Inv (DESIGN §3), loaded through cfg(gecs_verif) hooks"
NOOVF = "generation/version == u32::MAX pre-states excluded here (decided by the C08/C10 overflow harnesses)"
ISSUED = "probed handles have position < capacity (every issued handle; forged ones are C03)"
SYMCAP_ALLOWED = (("dereference failure: pointer invalid", "std::slice::from_raw_parts"),)   # the capacity field deliberately exceeds the allocation: std's validity check of the `&[Slot]` of `capacity` elements the storage forms is exempt in the symcap harnesses only
SYMCAP_ASSUME = "symcap harnesses: the validity check std performs when the storage forms a slice of `capacity` slots is exempt (the field deliberately exceeds the real allocation of N cells); every element access stays below N and is checked"
HIST_ASSUME = ("public API only; histories of 4 and more operations exhaust memory in CBMC (measured: > 16 GB after 12 min) and are outside",)


def J(h, tier=Q, cost=60, **kw):
    mod = h.split("_", 1)[0]
    kw.setdefault("role", "")
    return Job(harness="%s::%s" % (mod, h), tier=tier, cost=cost, **kw)


def c01():
    a = (INV_ASSUME, NOOVF, ISSUED)
    b = "capacity N as in the harness name (0..5; growth to (N+1)*2); all 2^32 generations/versions; one archetype populated (two in the two_archetypes harnesses)"
    jobs = [
        J("c01_base_foo_0", Q, 20, what="with_capacity(0) establishes Inv, rejects every handle", bounds=b),
        J("c01_base_foo_3", Q, 40, what="with_capacity(3) establishes Inv, rejects every handle", bounds=b),
        J("c01_base_foo_1", Q, 30, what="base case N=1 (one-slot free list)", bounds=b),
        J("c01_base_foo_2", Q, 30, what="base case N=2", bounds=b),
        J("c01_base_tri_2", T, 40, what="base case, 3-column archetype", bounds=b),
        J("c01_create_foo_3", Q, 200, what="create step + arbitrary handle through all lookup paths", bounds=b, assumes=a),
        J("c01_create_foo_1", T, 60, what="create step N=1", bounds=b, assumes=a),
        J("c01_create_foo_2", T, 120, what="create step N=2", bounds=b, assumes=a),
        J("c01_create_foo_4", T, 300, what="create step N=4 (archetype-level paths)", bounds=b, assumes=a),
        J("c01_create_within_foo_3", Q, 150, what="create_within_capacity step", bounds=b, assumes=a),
        J("c01_create_tri_3", T, 200, what="create step, 3-column archetype", bounds=b, assumes=a),
        J("c01_grow_foo_1", Q, 150, what="create with growth 1->4", bounds=b, assumes=a),
        J("c01_grow_foo_0", T, 60, what="create with growth 0->2", bounds=b, assumes=a),
        J("c01_grow_foo_2", T, 200, what="create with growth 2->6", bounds=b, assumes=a),
        J("c01_grow_foo_3", T, 300, what="create with growth 3->8", bounds=b, assumes=a),
        J("c01_grow_tri_1", T, 200, what="growth of a 3-column archetype", bounds=b, assumes=a),
        J("c01_destroy_typed_foo_3", Q, 150, what="destroy(Entity) step, archetype level", bounds=b, assumes=a),
        J("c01_destroy_any_foo_3", Q, 200, what="destroy(EntityAny) step, query paths probed", bounds=b, assumes=a),
        J("c01_destroy_wtyped_foo_3", Q, 150, what="World::destroy(Entity) step, world-level paths probed", bounds=b, assumes=a),
        J("c01_destroy_wany_foo_3", T, 150, what="World::destroy(EntityAny) step", bounds=b, assumes=a),
        J("c01_destroy_typed_foo_1", T, 60, what="destroy step N=1, all paths", bounds=b, assumes=a),
        J("c01_destroy_typed_foo_2", T, 200, what="destroy step N=2, all paths", bounds=b, assumes=a),
        J("c01_destroy_typed_foo_4", T, 400, what="destroy step N=4", bounds=b, assumes=a),
        J("c01_destroy_any_tri_3", T, 200, what="destroy step, 3-column archetype", bounds=b, assumes=a),
        J("c01_destroy_direct_foo_3", Q, 150, what="destroy(EntityDirect) step", bounds=b, assumes=a),
        J("c01_destroy_directany_foo_3", T, 150, what="destroy(EntityDirectAny) step", bounds=b, assumes=a),
        J("c01_destroy_wdirect_foo_3", T, 200, what="World::destroy(EntityDirect) step", bounds=b, assumes=a),
        J("c01_destroy_wdirectany_foo_2", Q, 150, what="World::destroy(EntityDirectAny) step, all paths", bounds=b, assumes=a),
        J("c13_clone_create_on_clone_foo_3", Q, 250, what="clone inside histories: the clone equals the original over the whole capacity (generations, free list, version), so every handle resolves identically in it; create on the clone", bounds=b, assumes=a),
        J("c13_clone_destroy_on_orig_foo_3", T, 250, what="clone then destroy on the original", bounds=b, assumes=a),
        J("c01_two_archetypes_destroy_2_2", Q, 200, what="two populated archetypes: World::destroy(EntityAny) changes only the handle's own archetype (generated dispatch)", bounds=b, assumes=a),
        J("c01_two_archetypes_lookup_2_2", T, 200, what="two populated archetypes: world-level lookups and ecs_find! over a shared component are routed by archetype id", bounds=b, assumes=a),
        J("c01_two_archetypes_create_2_2", T, 200, what="two populated archetypes: creation in one leaves the other untouched", bounds=b, assumes=a),
        J("c01_two_archetypes_destroy_3_2", T, 300, what="two populated archetypes, capacities 3/2", bounds=b, assumes=a),
        J("c01_destroy_typed_foo_5", T, 900, what="destroy step N=5", bounds=b, assumes=a, timeout=3000),
        J("c01_create_foo_5", T, 900, what="create step N=5", bounds=b, assumes=a, timeout=3000),
        # the boundary the step harnesses exclude by assumption: at generation u32::MAX the release must panic (default
        # features) — a wrapped generation would make the FIRST handle ever issued for that position resolve again
        J("c08_overflow_slot_typed_foo_3", Q, 60, what="C01 at the generation boundary: releasing a position whose generation is u32::MAX panics instead of wrapping (a wrap would let a destroyed handle resolve again)", bounds=b, assumes=(INV_ASSUME,), expect_fail=EXPECT_OVERFLOW),
        J("c08_overflow_arch_typed_foo_3", Q, 60, what="same for the archetype version (direct handles)", bounds=b, assumes=(INV_ASSUME,), expect_fail=EXPECT_OVERFLOW),
        J("hist_c2_l3", Q, 120, what="bounded public-API history (no state-writing hooks): 3 symbolic operations from with_capacity(2); every handle issued so far probed after every step; the final state satisfies Inv (reachable states are among the step harnesses' pre-states)", bounds="capacity 2, 3 operations (create / create_within_capacity / destroy of any issued handle by typed or dynamic key)", assumes=HIST_ASSUME),
        J("hist_grow_c1_l3", T, 700, what="same with growth: 3 symbolic operations from with_capacity(1), create may grow", bounds="capacity 1 growing to 4, 3 operations", assumes=HIST_ASSUME, timeout=3000),
    ]
    return jobs


def c02():
    a = (INV_ASSUME, NOOVF)
    b = "capacity N <= 3; shapes: 1 column (u8), 2 columns (u8,u16), 3 columns (u8, padded repr(C) (u8,u32), ZST), 16 columns; 4..15 columns are the same seq! expansion (stated, not checked); heap-owning components not modelled here (token components in C04)"
    def j(h, tier, cost, what, **kw):
        return J(h, tier, cost, what=what, bounds=b, assumes=a, **kw)
    return [
        j("c02_paths_queries_tri_3", Q, 200, "4 query-macro read paths agree with the model, 3-column archetype"),
        j("c02_paths_views_tri_3", Q, 150, "view fields / View::component / Borrow::component agree with the model"),
        j("c02_paths_slices_tri_3", Q, 150, "get_slice / get_all_slices_mut / iter / iter_mut / borrow_slice agree with the model"),
        j("c02_paths_queries_foo_3", T, 150, "query read paths, 1-column archetype"),
        j("c02_paths_views_foo_3", T, 100, "view/borrow read paths, 1-column archetype"),
        j("c02_paths_slices_foo_3", T, 100, "slice/iterator read paths, 1-column archetype"),
        j("c02_paths_all_tri_2", T, 200, "all 12 read paths, N=2"),
        j("c02_paths_all_other_2", T, 200, "all 12 read paths, second archetype sharing a component type"),
        j("c02_paths_all_bar_2", T, 200, "all 12 read paths, 2-column archetype of W1"),
        j("c02_returned_components_tri_3", Q, 120, "the value returned by destroy through every Components accessor (fields, get/get_mut by type, into_tuple order, tuple round trip)"),
        j("c02_paths_keys_tri_3", Q, 250, "keys of every kind (typed, dynamic, direct, direct-dynamic) reach the designated entity's values through find/find_borrow/view/borrow/resolve"),
        j("c02_paths_keys_foo_3", T, 200, "same, 1 column"),
        j("c02_paths_keys_other_2", T, 200, "same, second archetype"),
        J("c06_arch_iter_tri_3", Q, 100, what="Archetype::iter / iter_mut incl. positioned access (nth, skip): item k pairs the handle of dense cell k with its own components", bounds=b, assumes=a),
        j("c02_write_queries_tri_2", Q, 300, "write through any query macro, read through any of 12 paths, rest unchanged"),
        j("c02_write_others_tri_2", Q, 300, "write through view/borrow/slices/iter_mut, read through any of 12 paths"),
        j("c02_write_queries_tri_3", T, 400, "write via queries N=3"),
        j("c02_write_others_tri_3", T, 400, "write via non-query paths N=3"),
        j("c02_write_all_foo_2", T, 300, "all write x read paths, 1 column"),
        j("c02_write_all_other_2", T, 300, "all write x read paths, ArchOther"),
        j("c02_destroy_tri_3", Q, 150, "destroy keeps every other entity's columns (3 columns incl. padded + ZST)"),
        j("c02_destroy_tri_3", Q, 150, "same with debug assertions off (release-profile shape of force_destroy: debug_assert! bodies vanish)", debug_assertions=False),
        J("c13_clone_destroy_on_clone_tri_3", Q, 300, what="reads in a CLONE: the clone equals the original over the whole capacity (slots, generations, dense order), so every handle reads its own entity's values in the clone too", bounds=b, assumes=a + (ISSUED,)),
        j("c02_destroy_any_tri_3", T, 150, "World::destroy(EntityAny), 3 columns"),
        j("c02_destroy_direct_tri_3", T, 150, "destroy(EntityDirect), 3 columns"),
        j("c02_destroy_other_3", T, 150, "destroy, 2 columns"),
        j("c02_create_tri_3", T, 150, "create keeps every other entity's columns"),
        j("c02_grow_tri_2", Q, 200, "growth 2->6 reallocates all 3 columns consistently"),
        j("c02_grow_other_1", T, 150, "growth 1->4, 2 columns"),
        j("c02_destroy_wide_2", Q, 300, "destroy on a 16-column archetype"),
        j("c02_destroy_any_wide_2", T, 300, "World::destroy(EntityAny) on 16 columns"),
        j("c02_create_wide_2", T, 300, "create on 16 columns"),
        j("c02_grow_wide_1", Q, 300, "growth 1->4 on 16 columns"),
        j("c02_destroy_wide_3", T, 500, "destroy on 16 columns, N=3"),
        # which COLUMN a closure parameter is bound to when the closure lists its parameters in another order than
        # the archetype declares its components (positional pairing inside the query generators)
        j("c05_iter_one_of_first", Q, 200, "query with a OneOf parameter written before a plain component parameter: every parameter reads its own column"),
        Job(harness="c05::three::c05_one_of3_find", tier=Q, cost=150, what="ecs_find! with an arity-3 OneOf first and a plain component after it, archetypes declaring the columns in different orders", bounds=b, assumes=a),
        Job(harness="c05::three::c05_one_of3_iter_borrow_middle", tier=T, cost=150, what="ecs_iter_borrow! with a mutable arity-3 OneOf in the middle", bounds=b, assumes=a),
        j("c02_paths_agree_zf_2", Q, 200, "all read paths agree on an archetype whose FIRST column is zero-sized"),
        j("c02_write_read_zf_2", T, 300, "every write path, ZST-first archetype"),
        j("c02_destroy_zf_3", T, 200, "destroy step, ZST-first archetype"),
        j("c02_grow_zf_2", T, 200, "growth 2->6, ZST-first archetype"),
        j("c02_grow_al_1", Q, 150, "growth 1->4 with live values in a column whose element ALIGNMENT is 32 (above the allocator's default guarantee): every value moved bit for bit"),
        j("c02_grow_al_2", T, 200, "growth 2->6, over-aligned column"),
        j("c02_paths_agree_al_2", T, 250, "all read paths, over-aligned column"),
        j("c02_destroy_al_3", T, 200, "destroy step, over-aligned column"),
    ]


CLEAN_ENTITY = ("invalid entity handle", "resolve_entity")
CLEAN_DIRECT = ("invalid entity handle", "resolve_direct")
CLEAN_UNCHECKED = ("entity.archetype_id() == A::ARCHETYPE_ID", "from_any_unchecked")


def c03():
    a = (INV_ASSUME, "allowed failing checks (documented clean panics only): debug_assert 'invalid entity handle' in resolve_entity/resolve_direct, debug_assert in from_any_unchecked, panic 'invalid entity type'; no memory-safety class check may fail")
    b = "all 2^64 (key, generation) values / all (index < 2^24, version) direct values; capacity N <= 4; dev profile with debug assertions on AND off"
    jobs = []
    def both(h, tier, cost, what, allowed=(), role="", tier_nodbg=None, **kw):
        jobs.append(J(h, tier, cost, what=what, bounds=b, assumes=a, allowed=tuple(allowed), role=role, **kw))
        jobs.append(J(h, tier_nodbg or tier, cost, what=what + " (debug assertions off)", bounds=b, assumes=a, debug_assertions=False, role=role, **kw))
    both("c03_forged_arch_foo_3", Q, 150, "forged entity handle, archetype-level lookups", [CLEAN_ENTITY])
    both("c03_forged_world_foo_3", Q, 150, "forged entity handle, world-level lookups", [CLEAN_ENTITY], tier_nodbg=T)
    both("c03_forged_query_foo_3", T, 200, "forged entity handle, ecs_find!/ecs_find_borrow!", [CLEAN_ENTITY])
    both("c03_forged_arch_foo_0", T, 30, "forged handle vs capacity 0", [CLEAN_ENTITY])
    both("c03_forged_arch_foo_1", T, 100, "forged handle vs capacity 1, all paths", [CLEAN_ENTITY])
    both("c03_forged_arch_foo_4", T, 300, "forged handle vs capacity 4", [CLEAN_ENTITY])
    both("c03_forged_arch_tri_3", T, 200, "forged handle vs 3-column archetype", [CLEAN_ENTITY])
    both("c03_forged_destroy_typed_foo_3", T, 150, "forged handle into destroy(Entity)", [CLEAN_ENTITY])
    both("c03_forged_destroy_any_foo_3", Q, 150, "forged handle into destroy(EntityAny)", [CLEAN_ENTITY], tier_nodbg=T)
    both("c03_forged_destroy_world_foo_3", T, 150, "forged handle into World::destroy(EntityAny)", [CLEAN_ENTITY])
    both("c03_forged_destroy_any_tri_2", T, 150, "forged handle into destroy, 3 columns", [CLEAN_ENTITY])
    both("c03_direct_arch_foo_3", Q, 150, "arbitrary / cross-world direct handle, archetype-level lookups", [CLEAN_DIRECT])
    both("c03_direct_world_foo_3", T, 150, "arbitrary direct handle, world level", [CLEAN_DIRECT])
    both("c03_direct_query_foo_3", T, 200, "arbitrary direct handle, find queries", [CLEAN_DIRECT])
    both("c03_direct_arch_foo_0", T, 30, "arbitrary direct handle vs capacity 0", [CLEAN_DIRECT])
    both("c03_direct_arch_tri_2", T, 150, "arbitrary direct handle, 3 columns", [CLEAN_DIRECT])
    both("c03_direct_destroy_foo_3", Q, 150, "arbitrary direct handle into destroy", [CLEAN_DIRECT], tier_nodbg=T)
    both("c03_direct_destroy_any_foo_3", T, 150, "arbitrary EntityDirectAny into destroy", [CLEAN_DIRECT])
    both("c03_direct_destroy_world_foo_2", T, 150, "arbitrary EntityDirectAny into World::destroy", [CLEAN_DIRECT])
    both("c03_foreign_direct_foo_3", Q, 100, "direct handle carrying another archetype's id", [CLEAN_DIRECT], tier_nodbg=T)
    both("c03_unchecked_foo_3", Q, 60, "Entity::from_any_unchecked with arbitrary id", [CLEAN_UNCHECKED, CLEAN_ENTITY], role="unchecked_conversion_foreign_id")
    both("c03_unchecked_direct_foo_3", Q, 60, "EntityDirect::from_any_unchecked with a foreign id", [CLEAN_UNCHECKED, CLEAN_DIRECT], role="unchecked_conversion_foreign_id")
    for h in ("c03_world_unknown_contains", "c03_world_unknown_to_direct", "c03_world_unknown_destroy"):
        jobs.append(J(h, Q if h.endswith("contains") else T, 20, what="world-level call with an undeclared archetype id panics cleanly", bounds=b,
                      expect_fail=(("invalid entity type", ""),)))
    for h in ("c03_world1_unknown_contains", "c03_world1_unknown_to_direct", "c03_world1_unknown_destroy"):
        for dbg in (True, False):
            jobs.append(J(h, Q if (h.endswith("contains") and not dbg) or (h.endswith("destroy") and dbg) else T, 40, what="same in a world declaring exactly ONE archetype (single-arm dispatch tables)" + ("" if dbg else " (debug assertions off)"), bounds=b,
                          expect_fail=(("invalid entity type", ""),), debug_assertions=dbg))
    return jobs


PANIC_BORROW = (("placeholder message", "panic_already"),)
# the documented overflow panic, however it is raised: `checked_add(1).expect(msg)` (Kani shows the formatted message of
# expect_failed as a placeholder) or an explicit panic!/assert! carrying the documented "... version overflow" message
EXPECT_OVERFLOW = (("placeholder message@std::option::expect_failed||version overflow@", ""),)
STUBS = ("Kani -Z stubbing: SlotVersion::next / ArchetypeVersion::next replaced by a function identical below u32::MAX that inspects the world at u32::MAX and ends the path",)


def c04():
    a = (INV_ASSUME, NOOVF, "token ids = dense index (distinct), counters start at 0")
    b = "capacity N <= 3, <= 4 live tokens, one Drop column + one zero-sized Drop column; leaks of the allocations themselves not claimed"
    def j(h, t, c, w):
        return J(h, t, c, what=w, bounds=b, assumes=a)
    return [
        j("c04_destroy_typed_3", Q, 150, "typed destroy hands the tuple back undropped; world drop drops the rest once"),
        j("c04_destroy_any_3", Q, 150, "dynamic destroy drops the components exactly once inside"),
        j("c04_destroy_direct_forget_3", T, 150, "destroy by direct key; forgotten tuple is never dropped"),
        j("c04_destroy_any_2", T, 100, "dynamic destroy N=2"),
        j("c04_create_3", Q, 100, "create: no drop, no clone"),
        j("c04_create_within_full_2", Q, 100, "failed create_within_capacity returns its argument undropped, unstored"),
        j("c04_grow_2", Q, 150, "growth neither drops nor clones"),
        j("c04_grow_0", T, 60, "growth from capacity 0"),
        J("c02_grow_al_1", Q, 150, what="growth of a column whose element alignment is 32 moves every live value bit for bit (a value lost or duplicated by growth is never / twice dropped)", bounds=b, assumes=a),
        j("c04_clone_3", Q, 200, "clone clones each live component once; worlds own disjoint values"),
        j("c04_clone_2", T, 100, "clone N=2"),
        Job(harness="c04::nd::c04_clone_no_drop_glue", tier=Q, cost=100, what="a component type WITHOUT drop glue whose Clone is not a bit copy: cloning a world calls Clone::clone exactly once per live value and the clone holds the cloned values (public API, two archetypes, both column orders)", bounds="populations <= 2 per archetype", assumes=()),
        j("c04_clone_from_3", Q, 300, "clone_from onto an arbitrary non-fresh target of the same capacity: the target's old values dropped exactly once, each source value cloned exactly once, nothing of the source dropped"),
        j("c04_clone_from_2", T, 150, "clone_from N=2"),
        j("c04_iter_destroy_3", Q, 200, "ecs_iter_destroy! drops exactly the flagged ones once"),
        j("c04_iter_destroy_2", T, 100, "ecs_iter_destroy! N=2"),
        J("c03_direct_destroy_foo_3", Q, 150, what="destroy with an arbitrary direct handle, debug assertions off: one whose index lies in len..capacity (current version) must be refused — a destroy that reads a dead cell hands out a value a second time", bounds=b, assumes=(INV_ASSUME,), debug_assertions=False),
        J("c04_refused_clone_2", Q, 60, what="a clone refused because a column is mutably borrowed refuses BEFORE cloning anything (no leaked clones)", bounds=b, assumes=a, expect_fail=(("placeholder message", "panic_already"),)),
        j("c04_history", Q, 60, "public-API history without hooks (cross-check of the step argument)"),
        j("c04_mixed_drop", Q, 100, "archetypes mixing a column with drop glue and plain-data columns (both orders), 0..2 entities each: every live token dropped exactly once with the world (public API)"),
        j("c04_mixed_clone_drop", Q, 150, "same with a clone dropped first: the clone's tokens once, the original's untouched"),
        J("c10_overflow_destroy_tokens_any_3", Q, 120, what="counter-overflow panic inside destroy: nothing dropped by the failed destroy; world owns every token exactly once afterwards (state at the panic point; natively after catch_unwind + world drop)",
          bounds=b, assumes=a + STUBS, stubbing=True, role="overflow_mid_destroy"),
        J("c10_overflow_destroy_tokens_typed_2", T, 100, what="same through Archetype::destroy(Entity)", bounds=b, assumes=a + STUBS, stubbing=True, role="overflow_mid_destroy"),
    ]


def c06():
    a = (INV_ASSUME,)
    b = "two archetypes, capacities <= 3 each (incl. empty, full); Break at every global step"
    def j(h, t, c, w, **kw):
        return J(h, t, c, what=w, bounds=b, assumes=a, **kw)
    return [
        j("c06_iter_shared_2_2", Q, 150, "ecs_iter! over a component shared by both archetypes, symbolic Break step"),
        j("c06_iter_borrow_shared_2_2", Q, 150, "ecs_iter_borrow! over both archetypes, symbolic Break step"),
        j("c06_iter_shared_3_2", T, 250, "ecs_iter! capacities 3/2"),
        j("c06_iter_borrow_shared_2_3", T, 250, "ecs_iter_borrow! capacities 2/3"),
        j("c06_iter_shared_3_3", T, 400, "ecs_iter! capacities 3/3"),
        j("c06_iter_tri_only_3_2", Q, 150, "query matching only the first archetype (component set)"),
        j("c06_iter_borrow_other_only_2_3", T, 150, "query matching only the second archetype (Entity<_> + Q)"),
        j("c06_iter_borrow_tri_mut_3_1", T, 150, "ecs_iter_borrow! with &mut parameter"),
        j("c06_iter_other_typed_1_3", T, 150, "Entity<ArchOther> parameter selects one archetype"),
        j("c06_arch_iter_tri_3", Q, 150, "Archetype::iter / iter_mut / entities()"),
        j("c06_arch_iter_other_3", T, 150, "Archetype::iter / iter_mut, 2 columns"),
        j("c06_arch_iter_tri_4", T, 250, "Archetype::iter / iter_mut N=4"),
        j("c06_after_destroy_iter_3", Q, 200, "destroy an arbitrary entity from an arbitrary state, then ecs_iter!: exactly the survivors, once, with their own handle and components (expectation from the pre-state)"),
        j("c06_after_destroy_iter_3", Q, 200, "same with debug assertions off (a side effect hidden inside a debug_assert! disappears in this profile)", debug_assertions=False),
        J("c10_overflow_destroy_typed_foo_3", Q, 100, what="iteration after a destroy that PANICKED at the counter boundary: the state at the panic point satisfies Inv with every entity whole (no cell presented twice, len == live entities)", bounds=b, assumes=a + STUBS, stubbing=True, role="overflow_mid_destroy"),
        j("c06_after_destroy_slices_4", Q, 250, "same through entities() + get_slice, N=4"),
        j("c06_after_destroy_iter_borrow_3", T, 200, "same through ecs_iter_borrow!"),
        j("c06_after_destroy_arch_iter_3", T, 200, "same through Archetype::iter"),
        j("c06_after_create_iter_3", T, 200, "create then ecs_iter!"),
        j("c06_after_create_slices_3", T, 150, "create then slices"),
        j("c06_arch_iter_zf_3", Q, 150, "Archetype::iter / iter_mut / entities() / nth / skip on an archetype whose FIRST column is zero-sized"),
        j("c06_arch_internal_tri_3", Q, 200, "internal iteration and provided Iterator methods (for_each / fold / last / count / size_hint, next then for_each) on iter and iter_mut: same items, pairing and order as dense cells"),
        j("c06_arch_internal_zf_3", Q, 200, "same on the archetype whose first column is zero-sized"),
        j("c06_arch_internal_other_2", T, 150, "same, second archetype of the world, 2 columns"),
        j("c06_slices_tri_3", Q, 100, "get_slice / borrow_slice / get_all_slices_mut lengths and pairing"),
        # WHICH archetypes an iteration covers when the closure carries cfg-decorated parameters (real programs through the real cfg chain)
        J("c16_query_cfg_params", Q, 100, what="ecs_iter! / ecs_iter_borrow! with cfg-disabled parameters of every kind (component, Entity<A>, EntityDirect<A>, dynamic and wildcard direct handles): every entity of every archetype the erased query matches is visited", bounds="one world, populations <= 2 per archetype", assumes=()),
        J("c16_query_cfg_mixed_predicates", Q, 150, what="iteration with several distinct cfg predicates of different truth values in one query, both orders", bounds="one world, populations <= 2 per archetype", assumes=()),
        j("c06_slices_tri_4", T, 150, "slice accessors N=4"),
    ]


def c07():
    a = (INV_ASSUME, NOOVF, "entity identity = component value (assumed distinct)")
    b = "n <= 3 entities per archetype, 2 archetypes, all 4^n decision functions per query"
    def j(h, t, c, w, **kw):
        return J(h, t, c, what=w, bounds=b, assumes=a, **kw)
    return [
        j("c07_plain_step_2_1", Q, 250, "closures returning the two-valued EcsStep or (): nothing destroyed, EcsStep::Break stops without destroying"),
        j("c07_shared_2_1", Q, 300, "both archetypes matched, arbitrary decision table, capacities 2/1"),
        j("c07_shared_1_2", Q, 300, "capacities 1/2"),
        Job(harness="c07::small::c07_api_small", tier=Q, cost=120, what="public API only: two entities created by real calls, all 4^2 decision functions, no assumption on the visiting order (small enough to stay decidable when the generated loop keeps scratch containers of its own)", bounds="2 entities, one archetype", assumes=()),
        j("c07_on_clone_2_1", Q, 350, "the pass run on a CLONE of an arbitrary state: destroys issued by the loop resolve through the clone's own slot table"),
        j("c07_shared_1_2", T, 300, "capacities 1/2 with debug assertions off", debug_assertions=False),
        j("c07_shared_2_2", T, 600, "capacities 2/2"),
        j("c07_shared_3_1", T, 600, "capacities 3/1"),
        j("c07_tri_direct_typed_3", Q, 300, "EntityDirect<A> minted per visit designates the visited entity", role="iter_destroy_minted_direct"),
        j("c07_tri_direct_any_3", T, 300, "EntityDirectAny minted per visit", role="iter_destroy_minted_direct"),
        j("c07_tri_direct_wild_2", Q, 200, "EntityDirect<_> minted per visit", role="iter_destroy_minted_direct"),
        j("c07_tri_direct_wild_3", T, 300, "EntityDirect<_> minted per visit N=3", role="iter_destroy_minted_direct"),
        j("c07_shared_direct_2_1", T, 400, "direct handles minted in both archetypes", role="iter_destroy_minted_direct"),
        # WHICH archetypes a destroy pass covers when the closure carries cfg-disabled or OneOf parameters (real programs)
        J("c16_iter_destroy_cfg_component", Q, 100, what="ecs_iter_destroy! with a cfg-disabled component parameter only one archetype has: the pass covers every archetype the erased query matches", bounds="one world", assumes=()),
        J("c05_iter_destroy_one_of", Q, 200, what="ecs_iter_destroy! over {C} and OneOf<B, D>: visits and destroys exactly the entities of the two matching archetypes", bounds="world of 4 archetypes, populations <= 2", assumes=()),
    ]


def c08():
    a = (INV_ASSUME, "ghost handle = arbitrary issued-compatible (position, generation) (DESIGN §3 H1)")
    b = "capacity N <= 4 (growth to 8); generations full 32 bit incl. u32::MAX"
    def j(h, t, c, w, **kw):
        return J(h, t, c, what=w, bounds=b, assumes=a, **kw)
    return [
        j("c08_fresh_create_foo_3", Q, 100, "created handle differs from every issued-compatible handle"),
        j("c08_fresh_create_foo_4", T, 150, "same, N=4"),
        j("c08_fresh_within_foo_3", T, 100, "same through create_within_capacity"),
        j("c08_fresh_create_tri_2", T, 100, "same, 3 columns"),
        j("c08_fresh_grow_foo_2", Q, 100, "same with growth 2->6"),
        j("c08_fresh_grow_foo_0", T, 60, "growth 0->2"),
        j("c08_fresh_grow_foo_3", T, 150, "growth 3->8"),
        j("c08_monotone_destroy_foo_3", Q, 100, "destroy keeps issued-compatibility monotone; destroyed handle can never be issued again"),
        j("c08_monotone_destroy_foo_4", T, 150, "same, N=4"),
        j("c08_monotone_destroy_tri_2", T, 100, "same, 3 columns"),
        j("c08_cross_archetype_2_2", Q, 100, "handles of two archetypes differ"),
        J("c03_forged_destroy_any_foo_3", Q, 150, what="destroy with a forged handle naming a FREE position with that position's current generation must be refused (debug assertions off): releasing a free position twice makes the free list hand the same position out repeatedly", bounds=b, assumes=(INV_ASSUME,), debug_assertions=False),
        J("c12_symcap_destroy_foo_3", Q, 150, what="a destroy keeps every position's generation and the capacity whatever the capacity is (an archetype that shrank or reset on draining would issue old handles again)", bounds="capacity FIELD symbolic in N..=2^24 over a real allocation of N cells (live positions, free-list links and probes below N); growth excluded (E2 kernels growth/admission decide its arithmetic at full width)", assumes=a + (NOOVF, SYMCAP_ASSUME), allowed=SYMCAP_ALLOWED),
        J("hist_c2_l3", Q, 120, what="bounded public-API history: every handle returned by create/create_within_capacity differs from every handle issued earlier in the history", bounds="capacity 2, 3 operations", assumes=HIST_ASSUME),
        J("c13_clone_create_on_clone_foo_3", Q, 250, what="clone keeps every generation (free positions included) so a clone never re-issues a handle the original issued before the snapshot", bounds=b, assumes=a + (NOOVF, ISSUED)),
        j("c08_overflow_slot_typed_foo_3", Q, 60, "slot generation at u32::MAX: clean panic instead of reissue", expect_fail=EXPECT_OVERFLOW),
        j("c08_overflow_slot_any_foo_2", T, 60, "same via World::destroy(EntityAny)", expect_fail=EXPECT_OVERFLOW),
        j("c08_overflow_slot_direct_foo_2", T, 60, "same via destroy(EntityDirect)", expect_fail=EXPECT_OVERFLOW),
        j("c08_overflow_arch_typed_foo_3", Q, 60, "archetype version at u32::MAX: clean panic", expect_fail=EXPECT_OVERFLOW),
        j("c08_overflow_slot_typed_foo_3", Q, 60, "slot generation at u32::MAX with debug assertions off: the panic is not a debug-only check", expect_fail=EXPECT_OVERFLOW, debug_assertions=False),
        j("c08_overflow_arch_typed_foo_3", T, 60, "archetype version at u32::MAX with debug assertions off", expect_fail=EXPECT_OVERFLOW, debug_assertions=False),
        j("c08_overflow_arch_directany_foo_2", T, 60, "same via World::destroy(EntityDirectAny)", expect_fail=EXPECT_OVERFLOW),
        j("c08_overflow_slot_tri_2", T, 60, "slot overflow, 3 columns", expect_fail=EXPECT_OVERFLOW),
    ]


def c09():
    a = (INV_ASSUME, NOOVF, "probed direct handles are issued-like (current version => index < len); forged ones are C03")
    b = "capacity N <= 4; archetype version full 32 bit"
    def j(h, t, c, w, **kw):
        return J(h, t, c, what=w, bounds=b, assumes=a, **kw)
    jobs = [
        j("c09_obtain_typed_remove_foo_3", Q, 200, "to_direct(Entity) then any removal: accepted at issue, rejected afterwards"),
        j("c09_obtain_any_remove_foo_3", T, 200, "to_direct(EntityAny) then removal"),
        j("c09_obtain_wtyped_create_foo_3", Q, 200, "World::to_direct then creation: same entity or rejected"),
        j("c09_obtain_wany_recreate_foo_3", Q, 250, "remove last dense entity + re-create at same index: old direct handle rejected"),
        j("c09_obtain_direct_remove_foo_3", Q, 200, "to_direct(EntityDirect) then removal", role="to_direct_on_direct_key"),
        j("c09_obtain_wdirectany_remove_foo_2", T, 250, "World::to_direct(EntityDirectAny) then removal", role="to_direct_on_direct_key"),
        j("c09_obtain_typed_recreate_tri_2", T, 200, "re-creation at same dense index, 3 columns"),
        j("c09_obtain_any_create_tri_3", T, 200, "creation after to_direct, 3 columns"),
        j("c09_obtain_typed_failed_destroy_foo_3", Q, 200, "a FAILED destroy (stale key of any kind) is no structural change: direct handles stay accepted"),
        J("c03_foreign_direct_foo_3", Q, 100, what="a direct handle carrying another archetype's id is refused by every archetype-level path", bounds=b, assumes=a, allowed=(CLEAN_DIRECT,)),
        J("c13_clone_create_on_clone_foo_3", Q, 250, what="direct handles in a CLONE: the clone carries the original's archetype version and dense order, so a direct handle means the same entity (or is dead) in both", bounds=b, assumes=a + (ISSUED,)),
        J("c13_clone_from_foo_3", T, 400, what="same through clone_from", bounds=b, assumes=a + (ISSUED,)),
        j("c09_step_destroy_foo_3", Q, 250, "arbitrary direct handle probed after a destroy step, all paths", role="to_direct_on_direct_key"),
        j("c09_step_create_foo_3", T, 250, "arbitrary direct handle probed after a create step", role="to_direct_on_direct_key"),
        j("c09_step_destroy_foo_4", T, 300, "destroy step N=4", role="to_direct_on_direct_key"),
        j("c09_step_destroy_tri_3", T, 250, "destroy step, 3 columns", role="to_direct_on_direct_key"),
    ]
    for i, h in enumerate(("c09_minted_iter_typed_3", "c09_minted_iter_any_3", "c09_minted_iter_borrow_wild_3", "c09_minted_iter_borrow_any_3",
              "c09_minted_find_typed_3", "c09_minted_find_any_3", "c09_minted_find_borrow_wild_3", "c09_minted_find_borrow_bydirect_3",
              "c09_minted_find_bydirectany_3")):
        jobs.append(j(h, Q if i in (0, 3, 4, 7) else T, 120, "direct handle minted by a query macro resolves to the entity it was handed out for"))
    # handles minted by ecs_iter_destroy! (shared harness with C07)
    jobs.append(J("c07_tri_direct_typed_3", Q, 300, what="EntityDirect<A> minted by ecs_iter_destroy! accepted iff nothing was removed since", bounds=b, assumes=a, role="iter_destroy_minted_direct"))
    jobs.append(J("c07_tri_direct_any_3", T, 300, what="EntityDirectAny minted by ecs_iter_destroy!", bounds=b, assumes=a, role="iter_destroy_minted_direct"))
    return jobs


def c10():
    a = (INV_ASSUME,) + STUBS + ("panic in a user query closure / Into<Components> / Drop of a returned tuple happens between operations (generated code is safe Rust): state-wise the Break-at-k case of C06/C07",
                               "release of RefCell guards by unwinding is std's guarantee (Kani cannot unwind)")
    b = "capacity N <= 3; every documented panic point with a gecs frame on the stack: slot/archetype counter overflow inside destroy (4 key kinds) and ecs_iter_destroy!, k-th Clone::clone, k-th Drop::drop, capacity overflow in create / with_capacity"
    def j(h, t, c, w, **kw):
        return J(h, t, c, what=w, bounds=b, assumes=a, **kw)
    ov = dict(stubbing=True, role="overflow_mid_destroy")
    return [
        j("c10_overflow_destroy_typed_foo_3", Q, 100, "state AT the counter-overflow panic inside destroy(Entity) satisfies Inv, every entity whole or (target) absent", **ov),
        j("c10_overflow_destroy_any_foo_3", Q, 100, "same inside World::destroy(EntityAny)", **ov),
        j("c10_overflow_destroy_any_foo_3", Q, 120, "feature events: at the panic point the destroyed log lists exactly the entities really gone (a destroy that panics and leaves its entity alive logged nothing)", features=("events",), **ov),
        j("c10_overflow_iter_destroy_foo_2", T, 200, "feature events: same in the middle of ecs_iter_destroy! (entities destroyed earlier in the pass are logged, the one that panicked is not)", features=("events",), **ov),
        j("c10_overflow_destroy_direct_foo_2", T, 80, "same inside destroy(EntityDirect)", **ov),
        j("c10_overflow_destroy_directany_foo_2", T, 80, "same inside World::destroy(EntityDirectAny)", **ov),
        j("c10_overflow_destroy_any_tri_2", T, 100, "same, 3-column archetype", **ov),
        j("c10_overflow_point_witness_foo_3", Q, 60, "vacuity witness: both overflow points are reachable from Inv states", stubbing=True),
        j("c10_overflow_iter_destroy_foo_2", Q, 150, "state at the overflow panic in the middle of ecs_iter_destroy!", **ov),
        j("c10_overflow_iter_destroy_foo_3", T, 300, "same, N=3", **ov),
        j("c10_overflow_destroy_tokens_any_3", T, 120, "same on Drop-counting token components (ownership after the caught panic)", **ov),
        j("c10_callbacks_clone_drop_3", Q, 200, "source world intact at every Clone::clone call; no token dropped twice at any Drop::drop call"),
        j("c10_callbacks_clone_drop_2", T, 100, "same, N=2"),
        j("c10_callbacks_clone_from_3", Q, 300, "clone_from onto a non-fresh target: at every Clone::clone call (user code that may panic) the TARGET satisfies Inv and every component readable in it is alive and stored once"),
        j("c10_callbacks_clone_from_2", T, 150, "same, N=2"),
        j("c10_drop_point_destroy_any_3", Q, 250, "a component's Drop running inside World::destroy(EntityAny) (user code that may panic) sees the destroy complete: Inv, target absent, others whole, the dropped value not readable"),
        j("c10_drop_point_destroy_directany_2", T, 150, "same through World::destroy(EntityDirectAny)"),
        j("c10_drop_point_iter_destroy_2", T, 700, "same for the components ecs_iter_destroy! discards"),
        j("c10_conversion_point_arch_2", Q, 150, "the user's Into<Components> conversion (Archetype::create) runs on an untouched storage: inspected from inside the conversion"),
        j("c10_conversion_point_world_2", T, 150, "same through World::create"),
        j("c10_leaked_guard_destroy_any_3", Q, 150, "destroy after a guard was leaked with mem::forget: a RefCell panic inside destroy, if reachable, is replayed natively (catch_unwind + Inv/wholeness oracle)", allowed=PANIC_BORROW, native_oracle=True),
        j("c10_leaked_guard_destroy_typed_2", T, 100, "same, typed key, first column", allowed=PANIC_BORROW, native_oracle=True),
        j("c10_leaked_guard_iter_destroy_2", T, 150, "same through ecs_iter_destroy!, shared guard leaked", allowed=PANIC_BORROW, native_oracle=True),
        j("c10_capacity_overflow_create", Q, 20, "create at the 2^24 limit panics before touching anything", expect_fail=(("capacity overflow", "push"),)),
        j("c10_capacity_overflow_with_capacity", Q, 20, "with_capacity(> 2^24) panics", expect_fail=(("capacity may not exceed", "with_capacity"),)),
    ]


def c12():
    a = (INV_ASSUME, NOOVF)
    b = "capacity N <= 4 for steps/refill; the 2^24 limit on a hook-built state whose allocation is never touched; actually filling 2^24 cells is outside"
    def j(h, t, c, w, **kw):
        kw.setdefault("bounds", b)
        return J(h, t, c, what=w, assumes=a, **kw)
    return [
        j("c12_within_foo_3", Q, 100, "create_within_capacity: Ok iff len < capacity, capacity unchanged, argument returned otherwise"),
        j("c12_within_foo_0", T, 30, "same at capacity 0"),
        j("c12_within_tri_2", T, 100, "same, 3 columns"),
        j("c12_destroy_foo_3", Q, 100, "len/is_empty/capacity after destroy; free-list accounting (Inv I4)"),
        j("c12_destroy_foo_4", T, 150, "same, N=4"),
        j("c12_create_foo_3", Q, 150, "create: len+1, capacity never decreases, no growth while there is room"),
        j("c12_create_foo_1", Q, 80, "same, N=1 (growth from capacity 1)"),
        j("c12_refill_foo_3", Q, 150, "refill to exactly capacity from any pattern of free positions, then refuse"),
        j("c12_refill_foo_4", T, 300, "refill N=4"),
        j("c12_refill_tri_3", T, 200, "refill, 3 columns"),
        J("c13_clone_refill_clone_foo_3", Q, 200, what="a CLONE of an arbitrary state (free positions anywhere) keeps exact accounting: same len/capacity, refillable to exactly capacity", bounds=b, assumes=a + (ISSUED,)),
        J("hist_c2_l3", T, 120, what="bounded public-API history: len == live entities and create_within_capacity Ok iff len < capacity after every step", bounds="capacity 2, 3 operations", assumes=HIST_ASSUME),
        j("c12_with_capacity_fill_3", Q, 100, "with_capacity(n) permits n creations without reallocation (public API only)"),
        j("c12_with_capacity_fill_1", Q, 60, "same n=1 (one-slot free list)"),
        j("c12_with_capacity_fill_2", T, 80, "same n=2"),
        J("c12_refill_api_2", Q, 200, what="public API only, feature events with never-cleared logs: fill, destroy, refill twice; create_within_capacity Ok iff len < capacity", bounds=b, features=("events",)),
        J("c12_refill_api_2", T, 100, what="same, default features", bounds=b),
        j("c12_world_capacity_mapping", Q, 100, "World::with_capacity gives every archetype its own requested capacity (symbolic 0..2 each) in a world whose explicit ids are not monotone in declaration order; that many creations fit without growing"),
        j("c12_zero_capacity", Q, 40, "capacity 0: refuse within capacity, grow on create"),
        j("c12_symcap_destroy_foo_3", Q, 150, "capacity independence: destroy with the capacity field an ARBITRARY value in N..=2^24 behaves exactly as at capacity N (capacity unchanged, len-1, every generation kept, free list exact)", bounds="capacity FIELD symbolic in N..=2^24 over a real allocation of N cells (live positions, free-list links and probes below N); growth excluded (E2 kernels growth/admission decide its arithmetic at full width)", allowed=SYMCAP_ALLOWED),
        j("c12_symcap_within_foo_3", Q, 150, "capacity independence: create_within_capacity at an arbitrary capacity in N..=2^24", bounds="capacity FIELD symbolic in N..=2^24 over a real allocation of N cells (live positions, free-list links and probes below N); growth excluded (E2 kernels growth/admission decide its arithmetic at full width)", allowed=SYMCAP_ALLOWED),
        j("c12_symcap_destroy_foo_1", T, 60, "same, the destroy that empties a one-entity archetype", bounds="capacity FIELD symbolic in N..=2^24 over a real allocation of N cells (live positions, free-list links and probes below N); growth excluded (E2 kernels growth/admission decide its arithmetic at full width)", allowed=SYMCAP_ALLOWED),
        j("c12_symcap_destroy_tri_2", T, 150, "same, 3 columns", bounds="capacity FIELD symbolic in N..=2^24 over a real allocation of N cells (live positions, free-list links and probes below N); growth excluded (E2 kernels growth/admission decide its arithmetic at full width)", allowed=SYMCAP_ALLOWED),
        j("c12_limit_within_capacity", Q, 20, "create_within_capacity at the 2^24 limit refuses, nothing changes"),
        j("c12_limit_create_panics", Q, 20, "create at the 2^24 limit panics 'capacity overflow'", expect_fail=(("capacity overflow", "push"),)),
        j("c12_limit_with_capacity_panics", Q, 20, "with_capacity beyond 2^24 panics", expect_fail=(("capacity may not exceed", "with_capacity"),)),
    ]


def c13():
    a = (INV_ASSUME, NOOVF, ISSUED)
    b = "capacity N <= 3; 1, 2 and 3 column archetypes; pending events compared in C17's clone harness (events feature)"
    def j(h, t, c, w, **kw):
        return J(h, t, c, what=w, bounds=b, assumes=a, **kw)
    return [
        j("c13_clone_create_on_clone_foo_3", Q, 250, "clone == original over the whole capacity; create on the clone invisible in the original"),
        j("c13_clone_destroy_on_orig_foo_3", Q, 250, "destroy on the original invisible in the clone"),
        j("c13_clone_recycle_on_clone_foo_3", T, 300, "destroy+create on the clone"),
        j("c13_clone_refill_clone_foo_3", Q, 200, "the clone can be refilled to capacity"),
        j("c13_clone_refill_orig_foo_2", T, 250, "the original can be refilled after cloning"),
        j("c13_clone_destroy_on_clone_tri_3", Q, 300, "3-column archetype"),
        j("c13_clone_create_on_orig_tri_2", T, 250, "growth of the original after cloning"),
        j("c13_clone_recycle_on_orig_other_2", T, 200, "2-column archetype"),
        j("c13_clone_foo_0", T, 40, "clone of a capacity-0 archetype"),
        j("c13_clone_from_foo_3", Q, 400, "clone_from onto an ARBITRARY target state of the same capacity (world and archetype level): target == source over the whole capacity, source untouched, the source's handles resolve in the target"),
        j("c13_clone_from_foo_2", T, 200, "clone_from N=2, all lookup paths"),
        j("c13_clone_from_tri_2", T, 400, "clone_from, 3 columns"),
        j("c13_clone_two_archetypes_2_3", Q, 150, "two populated archetypes: each archetype of the clone equals the same archetype of the original; with_capacity maps capacities per archetype"),
        J("c17_clone_events_2", Q, 150, what="feature events: from an arbitrary state with an arbitrary history of pending events (pending logs that are NOT the list of live rows) the clone reports exactly the same pending created/destroyed events (light harness: its counterexamples replay)", bounds=b, assumes=a, features=("events",)),
        J("c17_clone_events_api", Q, 100, what="feature events: the clone's pending events on a concrete short public-API history (with / without a clear in between)", bounds=b, assumes=(), features=("events",)),
        J("c17_clear_arch_clone_2", T, 550, what="feature events: the clone carries the same pending created/destroyed events; clearing one side does not clear the other",
          bounds=b, assumes=a, features=("events",), mem_kb=40_000_000),
    ]


def c05_e1():
    a = ("E1 corpus = an enumeration of real programs, each decided over all populations 0..2 per archetype; the matching RULE for all declarations/queries within bounds is E2's job",)
    b = "world of 4 archetypes over 4 overlapping component types; 9 query shapes (components, OneOf, typed/wild/dynamic entity and direct parameters); populations <= 2 per archetype"
    names = [("c05_iter_single_component", Q), ("c05_iter_two_components", T), ("c05_iter_borrow_one_of", Q), ("c05_iter_component_and_one_of", Q),
             ("c05_iter_typed_entity", T), ("c05_iter_borrow_wild_and_direct", T), ("c05_find_unmatched", Q), ("c05_find_borrow_unmatched", T),
             ("c05_iter_destroy_one_of", Q)]
    jobs = [J(h, t, 200, what="real query over a real 4-archetype world: closure runs for exactly the matching archetypes with their own columns", bounds=b, assumes=a) for h, t in names]
    jobs.append(J("c05_iter_one_of_first", Q, 200, what="OneOf parameter written BEFORE a plain component parameter: each closure parameter is bound to its own column (parameter order is the user's)", bounds=b, assumes=a))
    jobs.append(J("c05_iter_borrow_one_of_middle", T, 200, what="mutable OneOf between a component and an entity parameter", bounds=b, assumes=a))
    b3 = "world of 3 archetypes each owning exactly one member of an arity-3 OneOf (at different column positions) plus a shared component; populations <= 1 per archetype"
    for h, t in (("c05_one_of3_iter_first", Q), ("c05_one_of3_iter_borrow_middle", Q), ("c05_one_of3_iter_mut_between", T), ("c05_one_of3_find", Q), ("c05_one_of3_find_borrow", T), ("c05_one_of3_iter_destroy", T)):
        jobs.append(Job(harness="c05::three::" + h, tier=t, cost=150, what="arity-3 OneOf at the first / middle / last position of the parameter list: bound to the archetype's own member column, the plain parameter to its own", bounds=b3, assumes=a))
    for h, t in (("c05_two_filters_iter", Q), ("c05_two_filters_find", Q), ("c05_two_filters_iter_borrow", T), ("c05_two_filters_iter_destroy", T)):
        jobs.append(Job(harness="c05::three::" + h, tier=t, cost=150, what="two OneOf parameters used purely as filters and therefore both named `_` (the only name a closure may repeat): the query acts on exactly the archetypes satisfying BOTH", bounds=b3, assumes=a))
    jobs.append(J("c16_iter_destroy_cfg_component", Q, 100, what="ecs_iter_destroy! with a cfg-disabled component parameter acts on every archetype the erased query matches", bounds=b, assumes=a))
    jobs.append(J("c16_query_cfg_mixed_predicates", T, 150, what="all five macros with cfg-decorated parameters", bounds=b, assumes=a))
    return jobs


def c11():
    a = ("both archetypes hold 2 entities in an arbitrary Inv arrangement", "release of guards BY UNWINDING is std's Ref/RefMut Drop guarantee (Kani cannot unwind)")
    b = "2 archetypes x 2 columns (one component type shared), 2 entities each; access kinds: borrow_slice(_mut), Borrow::component(_mut), ecs_find_borrow!, ecs_iter_borrow!, clone; nesting depth 2"
    jobs = []
    ok = ["c11_ok_slice_s_tri_p", "c11_ok_slice_m_tri_p", "c11_ok_slice_m_tri_pad", "c11_ok_slice_s_other_q", "c11_ok_slice_m_other_p",
          "c11_ok_comp_s_tri_pad", "c11_ok_comp_m_tri_p", "c11_ok_comp_m_other_q", "c11_ok_comp_s_other_p",
          "c11_ok_find_s_tri_p", "c11_ok_find_m_tri_pad", "c11_ok_find_m_other_p", "c11_ok_find_s_other_q",
          "c11_ok_iter_s_tri_pad", "c11_ok_iter_m_tri_p", "c11_ok_iter_m_other_q", "c11_ok_iter_s_other_p",
          ]
    okd = ["c11_ok_findd_s_tri_p", "c11_ok_findd_m_other_q", "c11_ok_findd_s_other_p", "c11_ok_slice_s_tri_p_findd", "c11_ok_iter_s_other_p_findd", "c11_ok_comp_s_other_p_findd"]
    quick_ok = {"c11_ok_slice_m_tri_p", "c11_ok_comp_m_other_q", "c11_ok_find_m_tri_pad", "c11_ok_iter_m_tri_p", "c11_ok_iter_s_other_p"}
    for h in ok:
        jobs.append(J(h, Q if h in quick_ok else T, 200, what="outer access held open, ARBITRARY non-conflicting inner access (33 cells at once) succeeds with right values", bounds=b, assumes=a))
    for h in okd:
        jobs.append(J(h, Q if h in ("c11_ok_findd_s_tri_p", "c11_ok_iter_s_other_p_findd") else T, 200, what="ecs_find_borrow! keyed by a DIRECT handle (EntityDirect<A> / EntityDirectAny) as the outer or the inner access next to an arbitrary non-conflicting slice / direct-key access (17 cells at once): granted, right values", bounds=b, assumes=a))
    rel = ["c11_released_slice_m_tri_p", "c11_released_comp_m_other_q", "c11_released_find_m_tri_pad", "c11_released_iter_m_other_p",
           "c11_released_slice_s_tri_pad", "c11_released_find_s_other_p"]
    for i, h in enumerate(rel):
        jobs.append(J(h, Q if i in (0, 3) else T, 150, what="after the outer access ended every formerly conflicting access succeeds", bounds=b, assumes=a))
    import re, os
    src = open(os.path.join(os.path.dirname(os.path.dirname(os.path.abspath(__file__))), "kani_gecs", "src", "c11.rs")).read()
    cells = re.findall(r"^\s*(c11_panic_\w+):", src, re.M)
    quick_p = {"c11_panic_slice_m_slice_s", "c11_panic_comp_s_comp_m", "c11_panic_find_m_find_m", "c11_panic_iter_s_iter_m",
               "c11_panic_slice_m_clone", "c11_panic_iter_m_clone", "c11_panic_find_s_comp_m", "c11_panic_comp_m_iter_m",
               "c11_panic_findd_m_findd_s", "c11_panic_iter_s_findd_m"}
    jobs.append(J("c11b_panic_clone_outer_mut_same_column", Q, 40, what="clone as the OUTER access: a mutable borrow of the same column made from inside a component's Clone impl panics", bounds=b, assumes=a, expect_fail=PANIC_BORROW))
    jobs.append(J("c11b_panic_clone_outer_mut_other_column", T, 40, what="clone as the OUTER access: mutable borrow of another column of the archetype being cloned panics", bounds=b, assumes=a, expect_fail=PANIC_BORROW))
    for h, t in (("c11b_empty_outer_mut_inner_shared", Q), ("c11b_empty_outer_shared_inner_mut", T), ("c11b_empty_outer_mut_inner_typed", T)):
        jobs.append(Job(harness="c11b::empty::" + h, tier=t, cost=60, what="EMPTY archetype cell: an outstanding guard on a column of an empty (possibly emptied) archetype does not make ecs_iter_borrow! over it panic", bounds=b, assumes=a))
    for h, t in (("c11b_break_before_guarded_mut", Q), ("c11b_break_before_guarded_shared", T)):
        jobs.append(Job(harness="c11b::empty::" + h, tier=t, cost=60, what="Break in an earlier archetype: a guard on a column of a LATER matched archetype conflicts with nothing", bounds=b, assumes=a))
    for h, t in (("c11b_static_api_after_leak_mut_p", Q), ("c11b_static_api_after_leak_shared_pad", T), ("c11b_static_api_after_leak_component_mut", T)):
        jobs.append(Job(harness="c11b::leaked::" + h, tier=t, cost=100, what="the statically checked (&mut self) API never consults the cells: after a guard was LEAKED with mem::forget, iter / iter_mut / slice accessors / view / ecs_iter! / ecs_find! still work", bounds=b, assumes=a))
    jobs.append(J("c11b_ok_clone_outer_shared_reentry", Q, 40, what="clone as the OUTER access: shared re-entry and a mutable borrow in another archetype succeed", bounds=b, assumes=a))
    for h in cells:
        jobs.append(J(h, Q if h in quick_p else T, 30, what="conflicting nested access panics (already borrowed); nothing after it is reachable", bounds=b, assumes=a,
                      expect_fail=PANIC_BORROW))
    return jobs


def c14_e1():
    b = "all 2^64 entity handle values; direct handles of the two declared archetypes, all indices < 2^24 and versions; world W3 (ids 3, 254)"
    return [
        J("c14_entity_conversions", Q, 60, what="from_raw/raw, TryFrom/from_any/into_any, reference casts, generated SelectEntity/SelectArchetype/__SelectTotal tables, Eq/Hash", bounds=b),
        J("c14_direct_conversions", Q, 60, what="same for direct handles and SelectEntityDirect", bounds=b),
        J("c14_entity_conversions", Q, 60, what="same under feature wrapping_version (the feature documents a change of the overflow behaviour only: from_raw still rejects exactly a zero generation, every conversion is unchanged)", bounds=b, features=("wrapping_version",)),
        J("c14_direct_conversions", T, 60, what="direct-handle conversions under wrapping_version", bounds=b, features=("wrapping_version",)),
        J("c14_tables_descending_ids", Q, 100, what="generated tables of a world whose explicit ids descend in declaration order: entity AND direct handles select their own archetype's variant; world-level dynamic-key calls routed accordingly", bounds=b),
        J("c14_created_ids", Q, 100, what="archetype_id() of created handles == ARCHETYPE_ID; From<Entity<A>> for Select*", bounds=b, assumes=(INV_ASSUME,)),
        # conversions performed by the LOOKUP API (to_direct = entity handle -> direct handle) on handles of another archetype:
        # refused, never re-stamped with the probed archetype's id
        J("c03_forged_arch_foo_3", Q, 150, what="Archetype::to_direct / resolve / view / borrow with an arbitrary (also foreign-id) dynamic handle: a foreign id is refused, an accepted handle converts to (its own dense index, current version)", bounds=b, assumes=(INV_ASSUME,), allowed=(CLEAN_ENTITY,)),
        J("c03_foreign_direct_foo_3", Q, 100, what="a direct handle carrying another archetype's id is refused by every archetype-level conversion / lookup", bounds=b, assumes=(INV_ASSUME,), allowed=(CLEAN_DIRECT,)),
        J("c03_forged_arch_foo_3", T, 150, what="same with debug assertions off", bounds=b, assumes=(INV_ASSUME,), debug_assertions=False),
    ]


def c15_e1():
    b = "one declaration with 6 archetypes (implicit, ascending, descending explicit ids, 255) and per-archetype explicit component ids; symbolic id / handle into the generated tables"
    return [J("c15_explicit_zero_ids", Q, 40, what="explicit id 0 on non-first archetypes/components, ids declared in descending order, disabled component carrying an explicit id", bounds=b),
            J("c15_constants_agree", Q, 60, what="ARCHETYPE_ID / COMPONENT_ID / ecs_component_id! / archetype_id() / Select* agree with each other and the discriminant rule on a real expansion", bounds=b)]


def c17():
    a = (INV_ASSUME, NOOVF, "logs hold 0 or 1 earlier create+destroy pair before the step (produced through the public API)")
    b = "feature events; capacity N <= 3; logs <= 6 entries; world iterators over 3 archetypes with log lengths 0..2 each"
    f = ("events",)
    def j(h, t, c, w):
        return J(h, t, c, what=w, bounds=b, assumes=a, features=f)
    return [
        J("c10_overflow_destroy_any_foo_3", Q, 120, what="a destroy that panics on counter overflow and leaves its entity alive logs nothing (state at the panic point; natively after catch_unwind)", bounds=b, assumes=(INV_ASSUME,) + STUBS, features=f, stubbing=True, role="overflow_mid_destroy"),
        J("c10_overflow_destroy_typed_foo_3", T, 120, what="same through Archetype::destroy(Entity)", bounds=b, assumes=(INV_ASSUME,) + STUBS, features=f, stubbing=True, role="overflow_mid_destroy"),
        j("c17_delta_create_2", Q, 150, "create appends exactly the returned handle to the created log"),
        j("c17_delta_within_2", Q, 150, "create_within_capacity: Ok appends, Err appends nothing"),
        j("c17_delta_destroy_wtyped_2", T, 200, "World::destroy(Entity) appends exactly the destroyed handle; miss appends nothing"),
        j("c17_delta_destroy_wany_2", T, 200, "World::destroy(EntityAny)"),
        j("c17_delta_destroy_typed_3", T, 300, "Archetype::destroy(Entity), N=3"),
        j("c17_delta_destroy_any_2", T, 200, "Archetype::destroy(EntityAny)"),
        j("c17_delta_destroy_direct_2", Q, 200, "destroy(EntityDirect)"),
        j("c17_delta_destroy_directany_2", T, 200, "destroy(EntityDirectAny)"),
        J("c17_delta_destroy_direct_2", Q, 200, what="events together with wrapping_version (code that is compiled differently under the other feature must still log): destroy appends exactly the destroyed handle", bounds=b, assumes=a, features=("events", "wrapping_version")),
        J("c17_iter_destroy_2", T, 200, what="events + wrapping_version: ecs_iter_destroy! logs each destruction once", bounds=b, assumes=a, features=("events", "wrapping_version")),
        j("c17_delta_reads_2", T, 100, "queries and reads never touch the logs"),
        j("c17_iter_destroy_2", Q, 200, "ecs_iter_destroy! logs each destruction once, in order"),
        J("c17_clear_arch_clone_2", T, 550, what="Archetype::clear_events empties both logs, nothing else changes; clone carries the pending events", bounds=b, assumes=a, features=f, mem_kb=40_000_000, timeout=3000),
        j("c17_clear_world_clone_1", Q, 250, "World::clear_events empties both logs of every archetype, nothing else changes; clone carries the pending events (N=1)"),
        j("c17_clone_events_2", Q, 150, "the clone's pending events alone: equal to the original's for every history of pending events"),
        j("c17_clone_events_api", Q, 100, "the clone's pending events on a concrete short public-API history (with / without a clear in between): cheap enough to stay decidable whatever containers a changed clone builds its logs with"),
        j("c17_clear_destroy_only_arch_2", Q, 200, "a window with destructions but no creations is cleared too (archetype level)"),
        j("c17_clear_destroy_only_world_2", T, 200, "same at world level"),
        j("c17_world_iter_created", Q, 150, "World::iter_created = concatenation over archetypes, exact size_hint at every position"),
        j("c17_world_iter_destroyed", T, 200, "World::iter_destroyed"),
        j("c17_world_iter_nth_created", Q, 300, "Iterator::nth (which an implementation could override to skip whole archetypes) on World::iter_created after a steps: same item as stepping with next(), exact size_hint afterwards, for jumps ending inside a log, exactly at its end, over empty logs, past the end"),
        j("c17_world_iter_nth_destroyed", T, 300, "same on World::iter_destroyed"),
        j("c17_world_iter_skip_created", Q, 300, "Iterator::skip on World::iter_created"),
        j("c17_world_iter_count_created", T, 300, "count() and skip().count()"),
        j("c17_world_iter_last_destroyed", T, 300, "last()"),
        j("c17_world_iter_for_each_created", T, 300, "for_each()/fold(): same items, same order as stepping"),
    ]


FEATURE_SETS = [(), ("events",), ("wrapping_version",), ("c32",), ("events", "wrapping_version"), ("events", "c32"), ("wrapping_version", "c32"), ("events", "wrapping_version", "c32")]


def c19():
    b = "core harnesses (base, create, growth, destroy x2 key kinds, forged lookup, clone, drop counting, iter_destroy, overflow boundary) re-decided per feature set x debug-assertions {on, off}; capacity N <= 3"
    core = [
        ("c01::c01_base_foo_3", 40, (), ()),
        ("c01::c01_create_foo_3", 200, (), ()),
        ("c01::c01_grow_foo_1", 150, (), ()),
        ("c01::c01_destroy_typed_foo_3", 150, (), ()),
        ("c01::c01_destroy_wdirectany_foo_2", 200, (), ()),
        ("c03::c03_forged_arch_foo_3", 150, (CLEAN_ENTITY,), ()),
        ("c03::c03_direct_arch_foo_3", 100, (CLEAN_DIRECT,), ()),
        ("c03::c03_forged_destroy_any_foo_3", 150, (CLEAN_ENTITY,), ()),
        ("c13::c13_clone_destroy_on_orig_foo_3", 250, (), ()),
        ("c04::c04_destroy_any_3", 150, (), ()),
        ("c04::c04_clone_3", 200, (), ()),
        ("c07::c07_tri_direct_wild_2", 300, (), ()),
        ("c08::c08_overflow_slot_typed_foo_3", 60, (), EXPECT_OVERFLOW),
        ("c08::c08_overflow_arch_typed_foo_3", 60, (), EXPECT_OVERFLOW),
        ("c19::c19_wide17_destroy_2", 300, (), ()),
        # non-event API under `events` with never-cleared logs: fill, destroy, refill (create_within_capacity Ok iff len < capacity)
        ("c12::c12_refill_api_2", 200, (), ()),
    ]
    quick_sets = {((), True), ((), False), (("events", "wrapping_version", "c32"), True), (("events", "wrapping_version", "c32"), False)}
    quick_core = {"c03::c03_forged_destroy_any_foo_3", "c03::c03_direct_arch_foo_3", "c01::c01_create_foo_3", "c01::c01_destroy_typed_foo_3", "c03::c03_forged_arch_foo_3", "c04::c04_destroy_any_3",
                  "c08::c08_overflow_slot_typed_foo_3", "c19::c19_wide17_destroy_2", "c13::c13_clone_destroy_on_orig_foo_3", "c12::c12_refill_api_2"}
    jobs = []
    for fs in FEATURE_SETS:
        for dbg in (True, False):
            for h, cost, allowed, expect in core:
                if h.startswith("c19::c19_wide17") and "c32" not in fs:
                    continue
                exp = expect
                if "wrapping_version" in fs:
                    exp = ()   # no panic: the harness asserts wraparound + Inv instead
                al = allowed if dbg else ()
                tier = Q if ((fs, dbg) in quick_sets and h in quick_core) else T
                jobs.append(Job(harness=h, tier=tier, cost=cost, features=fs, debug_assertions=dbg, allowed=tuple(al), expect_fail=tuple(exp),
                                what="core harness re-decided under features=%s debug_assertions=%s" % ("+".join(fs) or "default", dbg), bounds=b,
                                assumes=(INV_ASSUME, "feature c32 of the harness crate = gecs feature 32_components")))
    return jobs


PROPERTIES = {
    "C01": dict(e2=True, jobs=c01, title="A handle resolves iff its entity is alive; stale handles never resolve"),
    "C02": dict(jobs=c02, title="Every access path returns the entity's own, latest component values"),
    "C03": dict(e2=True, jobs=c03, title="Arbitrary, forged or foreign handles are memory-safe and never match by accident"),
    "C05": dict(e2=True, jobs=c05_e1, title="Queries act on exactly the matching archetypes"),
    "C04": dict(e2=True, jobs=c04, title="Each component value is dropped exactly once"),
    "C06": dict(jobs=c06, title="Iteration visits every matching live entity exactly once"),
    "C07": dict(jobs=c07, title="ecs_iter_destroy! visits once, destroys exactly the flagged ones"),
    "C08": dict(e2=True, jobs=c08, title="No handle is ever issued twice"),
    "C09": dict(e2=True, jobs=c09, title="A direct handle never designates another entity and dies with any removal"),
    "C10": dict(e2=True, jobs=c10, title="A panic leaves the world consistent"),
    "C11": dict(jobs=c11, title="Runtime-borrowed access panics instead of aliasing"),
    "C12": dict(e2=True, jobs=c12, title="len and capacity are exact"),
    "C13": dict(jobs=c13, title="A cloned world is identical and independent"),
    "C14": dict(e2=True, jobs=c14_e1, title="Handle conversions are lossless"),
    "C15": dict(e2=True, jobs=c15_e1, title="Ids follow the discriminant rule"),
    "C16": dict(e2=True, jobs=lambda: [J("c16_query_cfg_params", Q, 100, what="real queries with #[cfg(any())] / #[cfg(all())] parameters behave as the erased / unannotated query (E1 corpus)", bounds="one world, 4 queries"),
                                       J("c16_query_cfg_mixed_predicates", Q, 150, what="queries with several distinct cfg predicates of different truth values, both orders, repeated predicate, all five macros", bounds="one world, 7 queries"),
                                       J("c16_iter_destroy_cfg_component", Q, 100, what="ecs_iter_destroy! with a cfg-disabled component parameter only one archetype has", bounds="one world"),
                                       J("c16_decl_cfg_items", Q, 100, what="real declaration with cfg-disabled archetype and component: ids, matching and storage as if absent (E1 corpus)", bounds="one declaration")],
                title="#[cfg]-disabled items behave as absent"),
    "C17": dict(jobs=c17, title="Event logs are exact"),
    "C19": dict(e2=True, jobs=c19, title="Features and profiles change nothing else"),
}


def jobs_for(pid, tier):
    entry = PROPERTIES[pid]
    jobs = entry["jobs"]()
    if tier == "quick":
        jobs = [j for j in jobs if j.tier == "quick"]
    return jobs
