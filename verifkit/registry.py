"""Which harnesses decide which property, in which tier and configuration."""
from .kani import Job

Q, T = "quick", "thorough"

INV_ASSUME = "pre-state = arbitrary storage satisfying the representation invariant Inv (DESIGN §3), loaded through cfg(gecs_verif) hooks"
NOOVF = "generation/version == u32::MAX pre-states excluded here (decided by the C08/C10 overflow harnesses)"
ISSUED = "probed handles have position < capacity (every issued handle; forged ones are C03)"


def J(h, tier=Q, cost=60, **kw):
    mod = h.split("_", 1)[0]
    return Job(harness="%s::%s" % (mod, h), tier=tier, cost=cost, **kw)


def c01():
    a = (INV_ASSUME, NOOVF, ISSUED)
    b = "capacity N as in the harness name (0..4; growth to (N+1)*2); all 2^32 generations/versions; one archetype populated"
    jobs = [
        J("c01_base_foo_0", Q, 20, what="with_capacity(0) establishes Inv, rejects every handle", bounds=b),
        J("c01_base_foo_3", Q, 40, what="with_capacity(3) establishes Inv, rejects every handle", bounds=b),
        J("c01_base_foo_1", T, 30, what="base case N=1", bounds=b),
        J("c01_base_tri_2", T, 40, what="base case, 3-column archetype", bounds=b),
        J("c01_create_foo_3", Q, 200, what="create step + arbitrary handle through all lookup paths", bounds=b, assumes=a),
        J("c01_create_foo_1", T, 60, what="create step N=1", bounds=b, assumes=a),
        J("c01_create_foo_2", T, 120, what="create step N=2", bounds=b, assumes=a),
        J("c01_create_foo_4", T, 300, what="create step N=4 (archetype-level paths)", bounds=b, assumes=a),
        J("c01_create_within_foo_3", Q, 150, what="create_within_capacity step", bounds=b, assumes=a),
        J("c01_create_tri_3", T, 200, what="create step, 3-column archetype", bounds=b, assumes=a),
        J("c01_grow_foo_1", Q, 150, what="create with growth 1->4", bounds=b, assumes=a),
        J("c01_grow_foo_0", T, 60, what="create with growth 0->2", bounds=b, assumes=a),
        J("c01_grow_foo_2", T, 200, what="create with growth 2->6", bounds=b, assumes=a),
        J("c01_grow_foo_3", T, 300, what="create with growth 3->8", bounds=b, assumes=a),
        J("c01_grow_tri_1", T, 200, what="growth of a 3-column archetype", bounds=b, assumes=a),
        J("c01_destroy_typed_foo_3", Q, 150, what="destroy(Entity) step, archetype level", bounds=b, assumes=a),
        J("c01_destroy_any_foo_3", Q, 200, what="destroy(EntityAny) step, query paths probed", bounds=b, assumes=a),
        J("c01_destroy_wtyped_foo_3", Q, 150, what="World::destroy(Entity) step, world-level paths probed", bounds=b, assumes=a),
        J("c01_destroy_wany_foo_3", T, 150, what="World::destroy(EntityAny) step", bounds=b, assumes=a),
        J("c01_destroy_typed_foo_1", T, 60, what="destroy step N=1, all paths", bounds=b, assumes=a),
        J("c01_destroy_typed_foo_2", T, 200, what="destroy step N=2, all paths", bounds=b, assumes=a),
        J("c01_destroy_typed_foo_4", T, 400, what="destroy step N=4", bounds=b, assumes=a),
        J("c01_destroy_any_tri_3", T, 200, what="destroy step, 3-column archetype", bounds=b, assumes=a),
        J("c01_destroy_direct_foo_3", Q, 150, what="destroy(EntityDirect) step", bounds=b, assumes=a),
        J("c01_destroy_directany_foo_3", T, 150, what="destroy(EntityDirectAny) step", bounds=b, assumes=a),
        J("c01_destroy_wdirect_foo_3", T, 200, what="World::destroy(EntityDirect) step", bounds=b, assumes=a),
        J("c01_destroy_wdirectany_foo_2", Q, 150, what="World::destroy(EntityDirectAny) step, all paths", bounds=b, assumes=a),
    ]
    return jobs


PROPERTIES = {
    "C01": dict(jobs=c01, title="A handle resolves iff its entity is alive; stale handles never resolve"),
}


def jobs_for(pid, tier):
    entry = PROPERTIES[pid]
    jobs = entry["jobs"]()
    if tier == "quick":
        jobs = [j for j in jobs if j.tier == "quick"]
    return jobs
