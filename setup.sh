#!/bin/bash
# Run once after a fresh restore, offline. Nothing is downloaded; the framework is Python + a
# harness crate that every check rebuilds against /repo's working tree.
set -e
cd "$(dirname "$0")"
export CARGO_NET_OFFLINE=true
python3-vt -c "import z3, jsonschema" 
cargo kani --version >/dev/null
cvc5 --version >/dev/null
z3 --version >/dev/null
python3-vt -m verifkit.gen_table >/dev/null
mkdir -p evidence replays
echo "setup ok"
