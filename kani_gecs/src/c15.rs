//! C15 (E1 part) — the constants real expansions report agree with each other and with the
//! discriminant rule, on a handful of declarations with explicit ids in awkward orders.
//! (The rule itself, for ALL declarations within bounds, is decided by E2 on the MIR of
//! `DataWorld::new` / `advance_attribute_id`.)

use crate::sym;
use crate::{cover, harness};
use gecs::prelude::*;

pub mod wi {
    use gecs::prelude::*;
    pub struct X(pub u8);
    pub struct Y(pub u8);
    pub struct Z(pub u8);

    ecs_world! {
        ecs_name!(WI);
        ecs_archetype!(A0, X, #[component_id(6)] Y, Z);            // id 0; X=0, Y=6, Z=7
        #[archetype_id(10)]
        ecs_archetype!(A10, #[component_id(200)] X, #[component_id(3)] Y, Z); // id 10; 200, 3, 4
        ecs_archetype!(A11, Z);                                    // id 11 (implicit successor)
        #[archetype_id(4)]
        ecs_archetype!(A4, Y, X);                                  // id 4 (descending explicit)
        ecs_archetype!(A5, X);                                     // id 5
        #[archetype_id(255)]
        ecs_archetype!(A255, #[component_id(255)] Z);              // id 255; Z=255
    }

    pub mod zero {
        use super::{X, Y, Z};
        use gecs::prelude::*;
        // explicit ZERO ids on items that are NOT first in their scope
        ecs_world! {
            ecs_name!(WZ);
            #[archetype_id(7)]
            ecs_archetype!(B7, #[component_id(4)] X, #[component_id(0)] Y, Z);   // id 7; X=4, Y=0, Z=1
            #[archetype_id(0)]
            ecs_archetype!(B0, Z, #[component_id(0)] #[cfg(any())] X, Y);        // id 0; Z=0, Y=1 (disabled X consumes nothing)
            ecs_archetype!(B1, #[component_id(0)] X);                             // id 1 (successor of explicit 0); X=0
        }
    }
}
use wi::*;

pub fn explicit_zero_ids() {
    use wi::zero::*;
    assert!(B7::ARCHETYPE_ID == 7 && B0::ARCHETYPE_ID == 0 && B1::ARCHETYPE_ID == 1, "explicit #[archetype_id(0)] on a non-first archetype");
    assert!(<B7 as ArchetypeHas<X>>::COMPONENT_ID == 4 && <B7 as ArchetypeHas<Y>>::COMPONENT_ID == 0 && <B7 as ArchetypeHas<Z>>::COMPONENT_ID == 1, "explicit #[component_id(0)] on a non-first component is not honoured");
    assert!(<B0 as ArchetypeHas<Z>>::COMPONENT_ID == 0 && <B0 as ArchetypeHas<Y>>::COMPONENT_ID == 1 && <B1 as ArchetypeHas<X>>::COMPONENT_ID == 0);
    assert!(ecs_component_id!(Y, B7) == 0 && ecs_component_id!(Z, B7) == 1);
    let id = sym::any_u8();
    match SelectArchetype::try_from(id) {
        Ok(s) => assert!((id == 7 || id == 0 || id == 1) && s.archetype_id() == id, "SelectArchetype maps an id to another archetype"),
        Err(_) => assert!(!(id == 7 || id == 0 || id == 1), "SelectArchetype rejects a declared id (ids declared in descending order)"),
    }
    cover!(id == 7, "the first-declared, highest id");
}

pub fn constants_agree() {
    assert!(A0::ARCHETYPE_ID == 0 && A10::ARCHETYPE_ID == 10 && A11::ARCHETYPE_ID == 11 && A4::ARCHETYPE_ID == 4 && A5::ARCHETYPE_ID == 5 && A255::ARCHETYPE_ID == 255, "ARCHETYPE_ID does not follow the discriminant rule");
    assert!(<A0 as ArchetypeHas<X>>::COMPONENT_ID == 0 && <A0 as ArchetypeHas<Y>>::COMPONENT_ID == 6 && <A0 as ArchetypeHas<Z>>::COMPONENT_ID == 7, "COMPONENT_ID (A0)");
    assert!(<A10 as ArchetypeHas<X>>::COMPONENT_ID == 200 && <A10 as ArchetypeHas<Y>>::COMPONENT_ID == 3 && <A10 as ArchetypeHas<Z>>::COMPONENT_ID == 4, "COMPONENT_ID (A10)");
    assert!(<A4 as ArchetypeHas<Y>>::COMPONENT_ID == 0 && <A4 as ArchetypeHas<X>>::COMPONENT_ID == 1 && <A255 as ArchetypeHas<Z>>::COMPONENT_ID == 255, "COMPONENT_ID (A4/A255)");
    assert!(ecs_component_id!(Y, A0) == 6 && ecs_component_id!(Z, A10) == 4 && ecs_component_id!(X, A10) == 200 && ecs_component_id!(Z, A255) == 255, "ecs_component_id! disagrees with COMPONENT_ID");
    assert!(WI::NUM_ARCHETYPES == 6);
    let mut world = WI::new();
    let e = world.create::<A10>((X(1), Y(2), Z(3)));
    let f = world.create::<A4>((Y(1), X(2)));
    let g = world.create::<A255>((Z(9),));
    assert!(e.archetype_id() == 10 && e.into_any().archetype_id() == 10 && f.into_any().archetype_id() == 4 && g.into_any().archetype_id() == 255, "handle archetype_id() disagrees with ARCHETYPE_ID");
    // inside queries MatchedArchetype's ids are the matched archetype's
    let seen = ecs_find!(world, e, |_z: &Z, _x: &X| (ecs_component_id!(Z), ecs_component_id!(X)));
    assert!(seen == Some((4, 200)), "ecs_component_id! inside a query");
    let mut ids = [0u8; 6];
    let mut n = 0;
    ecs_iter!(world, |ent: &EntityAny, _z: &Z| { ids[n] = ent.archetype_id(); n += 1; });
    assert!(n == 2 && ids[0] == 10 && ids[1] == 255, "query over Z did not visit exactly A10 and A255's entities, in declaration order");
    // the generated tables over a symbolic id
    let id = sym::any_u8();
    let declared = id == 0 || id == 10 || id == 11 || id == 4 || id == 5 || id == 255;
    match SelectArchetype::try_from(id) {
        Ok(s) => assert!(declared && s.archetype_id() == id, "SelectArchetype maps an id to another archetype"),
        Err(_) => assert!(!declared, "SelectArchetype rejects a declared id"),
    }
    let key = sym::any_u32();
    let h = EntityAny::from_raw((key, 1)).ok().unwrap();
    match SelectEntity::try_from(h) {
        Ok(SelectEntity::A0(x)) => assert!(key & 0xff == 0 && x.into_any() == h),
        Ok(SelectEntity::A10(x)) => assert!(key & 0xff == 10 && x.into_any() == h),
        Ok(SelectEntity::A11(x)) => assert!(key & 0xff == 11 && x.into_any() == h),
        Ok(SelectEntity::A4(x)) => assert!(key & 0xff == 4 && x.into_any() == h),
        Ok(SelectEntity::A5(x)) => assert!(key & 0xff == 5 && x.into_any() == h),
        Ok(SelectEntity::A255(x)) => assert!(key & 0xff == 255 && x.into_any() == h),
        Err(_) => {
            let i = (key & 0xff) as u8;
            assert!(!(i == 0 || i == 10 || i == 11 || i == 4 || i == 5 || i == 255));
        }
    }
    cover!(declared, "declared id");
    cover!(!declared, "undeclared id");
    std::mem::forget(world);
}

harness! { fn c15_constants_agree() unwind(8) { constants_agree() } }
harness! { fn c15_explicit_zero_ids() unwind(4) { explicit_zero_ids() } }
