//! Kani harness crate for recatek/gecs. See /verif/DESIGN.md.
//! Every `harness!` is a `#[kani::proof]` under `cargo kani` and a plain function natively
//! (called by the replay binary with recorded counterexample values).
#![allow(unused, static_mut_refs)]

pub mod sym;
pub mod model;
pub mod worlds;
pub mod steps;
pub mod c01;
#[cfg(not(kani))]
pub mod replay_table;
