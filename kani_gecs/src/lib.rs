//! Kani harness crate for recatek/gecs. See /verif/DESIGN.md.
//! Every `harness!` is a `#[kani::proof]` under `cargo kani` and a plain function natively
//! (called by the replay binary with recorded counterexample values).
#![allow(unused, static_mut_refs)]

pub mod sym;
pub mod model;
pub mod worlds;
pub mod steps;
pub mod c01;
pub mod c02;
pub mod c03;
pub mod c04;
pub mod c05;
pub mod c06;
pub mod c07;
pub mod c08;
pub mod c09;
pub mod c10;
pub mod c11;
pub mod c11b;
pub mod c12;
pub mod c13;
pub mod c14;
pub mod c15;
pub mod c16;
pub mod c19;
pub mod hist;
#[cfg(feature = "events")]
pub mod c17;
#[cfg(feature = "big_world")]
pub mod c17big;
#[cfg(not(kani))]
pub mod replay_table;
