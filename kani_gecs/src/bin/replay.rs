//! Native replay of a Kani counterexample: `replay <harness> <values-file>`.
//! The values file has one recorded `kani::any()` value per line as hex bytes (little endian,
//! the order in which the harness draws them). Exit status: 0 the harness ran to completion
//! (failure not reproduced), 1 an assertion of the harness or a panic of the real code fired
//! (reproduced; message on stdout), 3 the recorded values do not drive this build down the
//! recorded path (not reproduced).
#[cfg(not(kani))]
fn main() {
    use kani_gecs::sym::replay;
    let args: Vec<String> = std::env::args().collect();
    if args.len() != 3 {
        eprintln!("usage: replay <harness> <values-file>");
        std::process::exit(2);
    }
    let f = match kani_gecs::replay_table::lookup(&args[1]) {
        Some(f) => f,
        None => {
            eprintln!("unknown harness {}", args[1]);
            std::process::exit(2);
        }
    };
    let text = std::fs::read_to_string(&args[2]).expect("values file");
    let mut values = Vec::new();
    for line in text.lines() {
        let line = line.trim();
        if line.starts_with('#') {
            continue;
        }
        let mut bytes = Vec::new();
        let mut i = 0;
        while i + 1 < line.len() + 1 && i + 2 <= line.len() {
            bytes.push(u8::from_str_radix(&line[i..i + 2], 16).expect("hex"));
            i += 2;
        }
        values.push(bytes);
    }
    replay::load(values);
    let r = std::panic::catch_unwind(f);
    match r {
        Ok(()) => {
            println!("REPLAY: completed without failure ({} recorded values unused)", replay::remaining());
            std::process::exit(0);
        }
        Err(p) => {
            if let Some(n) = p.downcast_ref::<replay::NotReproduced>() {
                println!("REPLAY: not reproduced: {}", n.0);
                std::process::exit(3);
            }
            let msg = if let Some(s) = p.downcast_ref::<&str>() {
                s.to_string()
            } else if let Some(s) = p.downcast_ref::<String>() {
                s.clone()
            } else {
                "<non-string panic payload>".to_string()
            };
            println!("REPLAY: FAILED: {}", msg);
            std::process::exit(1);
        }
    }
}

#[cfg(kani)]
fn main() {}
