//! C04 — each component value is dropped exactly once; nothing leaks or double-drops.
//! Token components count their own drops/clones in ghost arrays. One step + the final drop of
//! the world(s) from an arbitrary Inv state whose live cells own tokens 0..len.

use crate::model::*;
use crate::steps::*;
use crate::sym;
use crate::worlds::wt::*;
use crate::{cover, harness};
use gecs::prelude::*;

/// Arbitrary Inv state; the token in dense cell i has id i.
fn tok_state<const N: usize>() -> (WT, Model<N>) {
    reset();
    let m: Model<N> = Model::any_inv();
    assume_no_overflow(&m);
    let mut i = 0;
    while i < N {
        sym::assume(m.val[i] == i as u8);
        i += 1;
    }
    (load::<TokM, N>(&m), m)
}

/// `DROPS[i] == want[i]` for original tokens, nothing else dropped; ZST drops == zwant.
fn expect_drops<const N: usize>(want: [u8; 8], zwant: usize, what: &'static str) {
    unsafe {
        let mut i = 0;
        while i < 8 {
            assert!(DROPS[i] == want[i], "token drop count differs from exactly-once ownership");
            i += 1;
        }
        assert!(ZDROPS as usize == zwant, "zero-sized component drop count differs from exactly-once ownership");
    }
}

fn ones(len: usize) -> [u8; 8] {
    let mut w = [0u8; 8];
    let mut i = 0;
    while i < 8 {
        if i < len {
            w[i] = 1;
        }
        i += 1;
    }
    w
}

/// destroy by typed key hands the tuple back (not dropped); by dynamic key drops it once inside.
pub fn tok_destroy<const N: usize>(kind: u8) {
    let (mut world, m) = tok_state::<N>();
    let k = sym::any_usize();
    sym::assume(k < m.len);
    let (key, ver) = m.handle_raw(TokM::ID, k);
    let any = EntityAny::from_raw((key, ver)).ok().unwrap();
    let typed: Entity<ArchTok> = any.try_into().ok().unwrap();
    let mut want = [0u8; 8];
    match kind {
        0 => {
            let c = world.destroy(typed).unwrap();
            expect_drops::<N>(want, 0, "typed destroy must not drop the returned tuple");
            assert!(c.tok.0 == k as u8, "destroy returned another entity's token");
            drop(c);
            want[k] = 1;
            expect_drops::<N>(want, 1, "dropping the returned tuple drops it once");
        }
        1 => {
            let c = world.arch_tok.destroy(direct_of::<TokM>(k, m.version)).unwrap();
            expect_drops::<N>(want, 0, "typed destroy must not drop the returned tuple");
            std::mem::forget(c);
        }
        _ => {
            assert!(world.destroy(any).is_some());
            want[k] = 1;
            expect_drops::<N>(want, 1, "dynamic destroy drops the components exactly once");
        }
    }
    // a second destroy with the same handle must not drop anything
    assert!(world.destroy(any).is_none());
    expect_drops::<N>(want, if kind == 1 { 0 } else { 1 }, "stale destroy dropped something");
    drop(world);
    let mut fin = ones(m.len);
    if kind == 1 {
        fin[k] = 0; // forgotten by the caller: owned by nobody, never dropped
    }
    expect_drops::<N>(fin, if kind == 1 { m.len - 1 } else { m.len }, "after dropping the world every owned token is dropped exactly once");
    cover!(N < 2 || k + 1 < m.len, "destroyed a non-last entity (swap-remove moved a token)");
    cover!(m.len == N, "full archetype");
}

/// create / failed create_within_capacity / growth: no drops, no clones; then world drop.
pub fn tok_create<const N: usize>(mode: u8) {
    let (mut world, m) = tok_state::<N>();
    let mut extra = 0;
    match mode {
        0 => {
            sym::assume(m.len < N);
            let _ = world.create::<ArchTok>((Tok(7), Zt));
            extra = 1;
        }
        1 => {
            // len == capacity: the argument comes back, is not stored, not dropped
            sym::assume(m.len == N);
            match world.create_within_capacity::<ArchTok>((Tok(7), Zt)) {
                Ok(_) => panic!("create_within_capacity succeeded on a full archetype"),
                Err(c) => {
                    expect_drops::<N>([0; 8], 0, "failed create_within_capacity dropped something");
                    assert!(c.tok.0 == 7, "failed create_within_capacity returned another value");
                    assert!(world.arch_tok.len() == N);
                    drop(c);
                    unsafe { assert!(DROPS[7] == 1 && ZDROPS == 1) };
                    unsafe { DROPS[7] = 0; ZDROPS = 0 };
                }
            }
        }
        _ => {
            // growth: reallocation moves bits, it must neither drop nor clone
            sym::assume(m.len == N);
            let _ = world.create::<ArchTok>((Tok(7), Zt));
            extra = 1;
        }
    }
    expect_drops::<N>([0; 8], 0, "creation dropped something");
    unsafe {
        let mut i = 0;
        while i < 16 {
            assert!(CLONES[i] == 0, "creation cloned something");
            i += 1;
        }
    }
    drop(world);
    let mut fin = ones(m.len);
    fin[7] = extra;
    expect_drops::<N>(fin, m.len + extra as usize, "after dropping the world every owned token is dropped exactly once");
    cover!(N == 0 || m.len > 0, "non-empty archetype");
}

/// clone: each live token cloned exactly once; the two worlds own disjoint values.
pub fn tok_clone<const N: usize>() {
    let (world, m) = tok_state::<N>();
    let c = world.clone();
    unsafe {
        let mut i = 0;
        while i < 8 {
            assert!(CLONES[i] == if i < m.len { 1 } else { 0 }, "clone did not clone each live component exactly once");
            i += 1;
        }
        assert!(ZCLONES as usize == m.len, "clone did not clone each live zero-sized component exactly once");
    }
    expect_drops::<N>([0; 8], 0, "clone dropped something");
    drop(c);
    unsafe {
        let mut i = 0;
        while i < 8 {
            assert!(DROPS[8 + i] == if i < m.len { 1 } else { 0 }, "dropping the clone did not drop exactly the clone's values");
            i += 1;
        }
    }
    expect_drops::<N>([0; 8], m.len, "dropping the clone dropped an original");
    drop(world);
    expect_drops::<N>(ones(m.len), 2 * m.len, "after dropping both worlds every token is dropped exactly once");
    cover!(m.len == N, "full archetype");
    cover!(N < 2 || (m.len == 1 && !m.slot_live(0)), "live entity in a later slot position");
}

/// clone_from onto an ARBITRARY non-fresh target of the same capacity: the target's old values are
/// dropped exactly once (not leaked, not dropped twice), each live source value is cloned exactly
/// once, the source's values are not dropped; then both worlds are dropped.
/// Source tokens have ids 0..len_s, target tokens ids 4..4+len_t, clones ids 8..8+len_s.
pub fn tok_clone_from<const N: usize>() {
    reset();
    let s: Model<N> = Model::any_inv();
    let t: Model<N> = Model::any_inv();
    let mut i = 0;
    while i < N {
        sym::assume(s.val[i] == i as u8);
        sym::assume(t.val[i] == 4 + i as u8);
        i += 1;
    }
    let src = load::<TokM, N>(&s);
    let mut dst = load::<TokM, N>(&t);
    if sym::any_bool() {
        dst.clone_from(&src);
    } else {
        dst.arch_tok.clone_from(&src.arch_tok);
    }
    unsafe {
        let mut i = 0;
        while i < 4 {
            assert!(CLONES[i] == if i < s.len { 1 } else { 0 }, "clone_from did not clone each live source component exactly once");
            assert!(DROPS[i] == 0, "clone_from dropped a value of the source");
            assert!(DROPS[4 + i] == if i < t.len { 1 } else { 0 }, "clone_from did not drop each old value of the target exactly once");
            assert!(DROPS[8 + i] == 0, "clone_from dropped a fresh clone");
            i += 1;
        }
        assert!(ZCLONES as usize == s.len && ZDROPS as usize == t.len, "clone_from: zero-sized component clone/drop counts");
    }
    assert!(dst.arch_tok.len() == s.len, "clone_from: target len");
    drop(dst);
    unsafe {
        let mut i = 0;
        while i < 4 {
            assert!(DROPS[8 + i] == if i < s.len { 1 } else { 0 }, "dropping the target did not drop exactly the clones");
            assert!(DROPS[i] == 0 && DROPS[4 + i] <= 1, "dropping the target dropped a foreign value");
            i += 1;
        }
    }
    drop(src);
    unsafe {
        let mut i = 0;
        while i < 4 {
            assert!(DROPS[i] == if i < s.len { 1 } else { 0 }, "after dropping both worlds every source value is dropped exactly once");
            i += 1;
        }
        assert!(ZDROPS as usize == t.len + 2 * s.len, "zero-sized drops after both worlds are gone");
    }
    cover!(N < 2 || t.len > s.len, "target held more entities than the source");
    cover!(N < 2 || t.len < s.len, "target held fewer entities than the source");
}

/// ecs_iter_destroy!: the flagged ones are dropped exactly once inside the loop.
pub fn tok_iter_destroy<const N: usize>() {
    let (mut world, m) = tok_state::<N>();
    sym::assume(m.version < u32::MAX - N as u32);
    let flags = sym::arr_bool::<N>();
    ecs_iter_destroy!(world, |t: &Tok| {
        unsafe { assert!(DROPS[t.0 as usize] == 0, "closure was handed a dropped token") };
        if flags[t.0 as usize] { EcsStepDestroy::ContinueDestroy } else { EcsStepDestroy::Continue }
    });
    let mut want = [0u8; 8];
    let mut n = 0;
    let mut i = 0;
    while i < N {
        if i < m.len && flags[i] {
            want[i] = 1;
            n += 1;
        }
        i += 1;
    }
    expect_drops::<N>(want, n, "ecs_iter_destroy! must drop exactly the flagged entities' components, once");
    drop(world);
    expect_drops::<N>(ones(m.len), m.len, "after dropping the world every token is dropped exactly once");
    cover!(n == N, "all destroyed");
    cover!(N < 2 || (n == 1 && m.len == N && flags[0]), "only the first dense entity destroyed");
}

/// A short public-API history (no hooks): create x2, failed within-capacity, destroy, clone, drops.
pub fn tok_history() {
    reset();
    let mut world = WT::with_capacity(WTCapacity { arch_tok: 2 });
    let e0 = world.create::<ArchTok>((Tok(0), Zt));
    let e1 = world.create::<ArchTok>((Tok(1), Zt));
    let r = world.create_within_capacity::<ArchTok>((Tok(2), Zt));
    assert!(r.is_err());
    drop(r);
    unsafe { assert!(DROPS[2] == 1 && DROPS[0] == 0 && DROPS[1] == 0) };
    let first = sym::any_bool();
    let dynamic = sym::any_bool();
    let victim = if first { e0 } else { e1 };
    if dynamic {
        assert!(world.destroy(victim.into_any()).is_some());
    } else {
        drop(world.destroy(victim).unwrap());
    }
    let gone = if first { 0 } else { 1 };
    unsafe { assert!(DROPS[gone] == 1 && DROPS[1 - gone] == 0) };
    let c = world.clone();
    unsafe { assert!(CLONES[1 - gone] == 1 && CLONES[gone] == 0) };
    drop(world);
    unsafe { assert!(DROPS[1 - gone] == 1 && DROPS[8 + 1 - gone] == 0) };
    drop(c);
    unsafe { assert!(DROPS[8 + 1 - gone] == 1 && DROPS[8 + gone] == 0 && ZDROPS == 4) };
    cover!(first && dynamic, "first entity destroyed dynamically");
}

fn clone_ran_under_mut_borrow(_id: u8) {
    panic!("Clone::clone ran although a column of the archetype is mutably borrowed: a refused clone leaks what it already cloned");
}

/// clone is documented to panic when a column is mutably borrowed. It must refuse BEFORE it
/// clones anything: component clones made before the refusal belong to no world (leak).
pub fn tok_refused_clone<const N: usize>() {
    let (world, m) = tok_state::<N>();
    sym::assume(m.len > 0);
    let guard = world.arch_tok.borrow_slice_mut::<Zt>(); // the LAST column
    unsafe { ON_CLONE = Some(clone_ran_under_mut_borrow) };
    let c = world.clone();
    cover!(true, "UNREACHABLE: clone succeeded although a column is mutably borrowed");
    std::mem::forget(c);
    drop(guard);
    std::mem::forget(world);
}

/// Archetypes that mix a column with drop glue and plain-data columns (both orders), public API
/// only: every token still in storage is dropped exactly once with its world, also in the clone.
pub fn mixed_drop(with_clone: bool) {
    use crate::worlds::wmx::*;
    reset();
    let n_tp = sym::any_usize();
    let n_pt = sym::any_usize();
    sym::assume(n_tp <= 2 && n_pt <= 2);
    let mut world = WMX::with_capacity(WMXCapacity { arch_tp: 2, arch_pt: 2, arch_pp: 1 });
    let mut i = 0;
    while i < 2 {
        if i < n_tp {
            world.create::<ArchTp>((Tok(i as u8), Plain(7)));
        }
        if i < n_pt {
            world.create::<ArchPt>((Plain(9), Tok(2 + i as u8)));
        }
        i += 1;
    }
    world.create::<ArchPp>((Plain(1),));
    if with_clone {
        let c = world.clone();
        drop(c);
        let mut i = 0;
        while i < 2 {
            unsafe {
                assert!(DROPS[8 + i] == (i < n_tp) as u8 && DROPS[8 + 2 + i] == (i < n_pt) as u8, "dropping a cloned world did not drop each of its components exactly once (mixed archetype)");
                assert!(DROPS[i] == 0 && DROPS[2 + i] == 0, "dropping the clone dropped a component of the original");
            }
            i += 1;
        }
    }
    drop(world);
    let mut i = 0;
    while i < 2 {
        unsafe {
            assert!(DROPS[i] == (i < n_tp) as u8, "a live component was not dropped exactly once with its world (archetype mixing drop glue and plain data)");
            assert!(DROPS[2 + i] == (i < n_pt) as u8, "a live component was not dropped exactly once with its world (archetype mixing plain data and drop glue)");
        }
        i += 1;
    }
    cover!(n_tp == 2 && n_pt == 1, "both mixed archetypes populated");
    cover!(n_tp == 0 && n_pt == 0, "nothing with drop glue alive");
}

harness! { fn c04_mixed_drop() unwind(12) { mixed_drop(false) } }
harness! { fn c04_mixed_clone_drop() unwind(12) { mixed_drop(true) } }
harness! { fn c04_refused_clone_2() unwind(10) { tok_refused_clone::<2>() } }
harness! { fn c04_destroy_typed_3() unwind(10) { tok_destroy::<3>(0) } }
harness! { fn c04_destroy_direct_forget_3() unwind(10) { tok_destroy::<3>(1) } }
harness! { fn c04_destroy_any_3() unwind(10) { tok_destroy::<3>(2) } }
harness! { fn c04_destroy_any_2() unwind(10) { tok_destroy::<2>(2) } }
harness! { fn c04_create_3() unwind(18) { tok_create::<3>(0) } }
harness! { fn c04_create_within_full_2() unwind(18) { tok_create::<2>(1) } }
harness! { fn c04_grow_2() unwind(18) { tok_create::<2>(2) } }
harness! { fn c04_grow_0() unwind(18) { tok_create::<0>(2) } }
harness! { fn c04_clone_3() unwind(10) { tok_clone::<3>() } }
harness! { fn c04_clone_2() unwind(10) { tok_clone::<2>() } }
harness! { fn c04_iter_destroy_3() unwind(10) { tok_iter_destroy::<3>() } }
harness! { fn c04_iter_destroy_2() unwind(10) { tok_iter_destroy::<2>() } }
harness! { fn c04_history() unwind(10) { tok_history() } }
harness! { fn c04_clone_from_3() unwind(10) { tok_clone_from::<3>() } }
harness! { fn c04_clone_from_2() unwind(10) { tok_clone_from::<2>() } }

/// A component type WITHOUT drop glue whose `Clone` is not a bit copy (a handle into a pool, a
/// `ManuallyDrop<Box<_>>`, a type that registers its clones): cloning a world calls `Clone::clone`
/// exactly once per live value — "has no destructor" does not mean "may be block-copied".
pub mod nd {
    use crate::sym;
    use crate::{cover, harness};
    use gecs::prelude::*;

    pub static mut NCLONES: u8 = 0;
    pub struct Nd(pub u8);
    impl Clone for Nd {
        fn clone(&self) -> Self {
            unsafe { NCLONES += 1 };
            Nd(self.0 + 100)
        }
    }
    #[derive(Clone, Copy)]
    pub struct Pl(pub u8);

    ecs_world! {
        ecs_name!(WND);
        ecs_archetype!(ArchNd, Nd, Pl);
        ecs_archetype!(ArchPn, Pl, Nd);
    }

    pub fn clone_no_drop_glue() {
        unsafe { NCLONES = 0 };
        let n0 = sym::any_usize();
        let n1 = sym::any_usize();
        sym::assume(n0 <= 2 && n1 <= 2);
        let mut world = WND::with_capacity(WNDCapacity { arch_nd: 2, arch_pn: 2 });
        let mut i = 0;
        while i < 2 {
            if i < n0 { world.create::<ArchNd>((Nd(i as u8), Pl(7))); }
            if i < n1 { world.create::<ArchPn>((Pl(9), Nd(10 + i as u8))); }
            i += 1;
        }
        let mut c = world.clone();
        unsafe { assert!(NCLONES as usize == n0 + n1, "clone did not call Clone::clone exactly once per live component of a type without drop glue") };
        let mut seen = 0;
        ecs_iter!(c, |v: &Nd, p: &Pl| {
            assert!(v.0 >= 100 && (p.0 == 7 || p.0 == 9), "the clone holds a bit copy of the original's value instead of its clone");
            seen += 1;
        });
        assert!(seen == n0 + n1);
        let mut orig = 0;
        ecs_iter!(world, |v: &Nd| { assert!(v.0 < 100, "cloning changed the original"); orig += 1; });
        assert!(orig == n0 + n1);
        cover!(n0 == 2 && n1 == 1, "both archetypes populated");
        std::mem::forget(world);
        std::mem::forget(c);
    }

    harness! { fn c04_clone_no_drop_glue() unwind(5) { clone_no_drop_glue() } }
}
