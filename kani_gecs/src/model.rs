//! Ghost model of one archetype storage, the representation invariant `Inv` (DESIGN §3) and
//! the load/read bridge to a real storage through the `cfg(gecs_verif)` hooks.

use crate::sym;
use gecs::prelude::*;

pub const FREE_BIT: u32 = 1 << 31;
pub const FREE_END: u32 = u32::MAX;
pub const MAX_CAP: usize = 1 << 24;

/// Plain-array mirror of one `StorageN` of capacity `N`.
///
/// * `slot_idx[p]` / `slot_ver[p]`: raw index word (dense index, or free-list link with the free
///   bit) and generation of sparse slot `p`;
/// * `ent_slot[i]` / `ent_ver[i]`: slot position and generation stored in dense handle `i`
///   (`ent_slot == u32::MAX` encodes "handle carries a foreign archetype id");
/// * `val[i]`, `aux[i]`: the entity's identity byte and a free 32-bit payload from which each
///   world derives its component values (`ok[i]` is false when the columns read back do not
///   belong together, i.e. a column was mixed up).
#[derive(Clone, Copy)]
pub struct Model<const N: usize> {
    pub version: u32,
    pub len: usize,
    pub free_head: u32,
    pub slot_idx: [u32; N],
    pub slot_ver: [u32; N],
    pub ent_slot: [u32; N],
    pub ent_ver: [u32; N],
    pub val: [u8; N],
    pub aux: [u32; N],
    pub ok: [bool; N],
}

impl<const N: usize> Model<N> {
    /// A fully symbolic model (every field unconstrained).
    pub fn any() -> Self {
        Model {
            version: sym::any_u32(),
            len: sym::any_usize(),
            free_head: sym::any_u32(),
            slot_idx: sym::arr_u32::<N>(),
            slot_ver: sym::arr_u32::<N>(),
            ent_slot: sym::arr_u32::<N>(),
            ent_ver: sym::arr_u32::<N>(),
            val: sym::arr_u8::<N>(),
            aux: sym::arr_u32::<N>(),
            ok: [true; N],
        }
    }

    /// A symbolic model constrained by `Inv`.
    pub fn any_inv() -> Self {
        let m = Self::any();
        sym::assume(m.len <= N);
        sym::assume(m.inv());
        m
    }

    /// The representation invariant I1–I4 (I5 is carried by `val/aux/ok` being what was loaded).
    pub fn inv(&self) -> bool {
        // I1
        if self.version == 0 || self.len > N || N > MAX_CAP {
            return false;
        }
        let mut i = 0;
        while i < N {
            if self.slot_ver[i] == 0 {
                return false;
            }
            // I2 dense -> sparse
            if i < self.len {
                let p = self.ent_slot[i] as usize;
                if p >= N {
                    return false;
                }
                if self.slot_idx[p] != i as u32 {
                    return false;
                }
                if self.slot_ver[p] != self.ent_ver[i] {
                    return false;
                }
            }
            // I3 sparse -> dense, and free links in range
            let si = self.slot_idx[i];
            if si & FREE_BIT == 0 {
                let d = si as usize;
                if d >= self.len {
                    return false;
                }
                if self.ent_slot[d] as usize != i {
                    return false;
                }
            } else if si != FREE_END {
                if ((si & !FREE_BIT) as usize) >= N {
                    return false;
                }
            }
            i += 1;
        }
        // I4 the free list visits exactly N - len distinct free slots, then the end marker
        let mut cur = self.free_head;
        let mut visited = [false; N];
        let mut k = 0;
        while k < N {
            if k < N - self.len {
                if cur & FREE_BIT == 0 || cur == FREE_END {
                    return false;
                }
                let p = (cur & !FREE_BIT) as usize;
                if p >= N {
                    return false;
                }
                if visited[p] {
                    return false;
                }
                visited[p] = true;
                if self.slot_idx[p] & FREE_BIT == 0 {
                    return false;
                }
                cur = self.slot_idx[p];
            }
            k += 1;
        }
        cur == FREE_END
    }

    /// Is slot position `p` live (in range, free bit clear)?
    pub fn slot_live(&self, p: usize) -> bool {
        p < N && self.slot_idx[p] & FREE_BIT == 0
    }

    /// The specification of a lookup: raw handle `(key, ver)` designates a live entity of the
    /// archetype with id `id` iff id matches, the position is live and the generations agree.
    /// Returns the dense index.
    pub fn lookup(&self, id: u8, key: u32, ver: u32) -> Option<usize> {
        let p = (key >> 8) as usize;
        if (key & 0xff) as u8 == id && self.slot_live(p) && self.slot_ver[p] == ver && ver != 0 {
            Some(self.slot_idx[p] as usize)
        } else {
            None
        }
    }

    /// The specification of a direct lookup: `(index, version)` is accepted iff the version is
    /// the archetype's current one and the index is below len.
    pub fn lookup_direct(&self, id: u8, key: u32, ver: u32) -> Option<usize> {
        let i = (key >> 8) as usize;
        if (key & 0xff) as u8 == id && ver == self.version && i < self.len {
            Some(i)
        } else {
            None
        }
    }

    /// Raw `(key, version)` of the handle stored in dense cell `i` for archetype id `id`.
    pub fn handle_raw(&self, id: u8, i: usize) -> (u32, u32) {
        ((self.ent_slot[i] << 8) | id as u32, self.ent_ver[i])
    }

    /// Is `(p, g)` issued-compatible (DESIGN §3, H1)?
    pub fn issued_compatible(&self, p: usize, g: u32) -> bool {
        p < N && g != 0 && (g < self.slot_ver[p] || (g == self.slot_ver[p] && self.slot_live(p)))
    }
}

/// Everything a generic harness needs to know about one archetype of one generated world.
/// Implemented by `model_arch!` for marker types; all raw accessors go through the
/// `cfg(gecs_verif)` hooks of the real storage.
pub trait MArch {
    type World: World
        + WorldHas<Self::Arch>
        + WorldCanResolve<Entity<Self::Arch>>
        + WorldCanResolve<EntityDirect<Self::Arch>>
        + WorldCanResolve<EntityAny>
        + WorldCanResolve<EntityDirectAny>
        + Clone;
    type Arch: Archetype
        + ArchetypeCanResolve<Entity<Self::Arch>>
        + ArchetypeCanResolve<EntityDirect<Self::Arch>>
        + ArchetypeCanResolve<EntityAny>
        + ArchetypeCanResolve<EntityDirectAny>;
    const ID: u8;
    /// Number of component columns of this archetype.
    const COLUMNS: usize;
    /// Which bits of `aux` this archetype's columns actually store.
    const AUX_MASK: u32;

    /// A fresh world in which this archetype has capacity `cap` (others: 0).
    fn new_world(cap: usize) -> Self::World;
    fn arch(w: &Self::World) -> &Self::Arch;
    fn arch_mut(w: &mut Self::World) -> &mut Self::Arch;

    fn set_raw(a: &mut Self::Arch, version: u32, len: usize, free_head: u32);
    fn set_capacity(a: &mut Self::Arch, capacity: usize);
    fn set_slot(a: &mut Self::Arch, at: usize, index: u32, version: u32);
    fn set_cell(a: &mut Self::Arch, at: usize, slot: u32, version: u32, val: u8, aux: u32);
    fn get_raw(a: &Self::Arch) -> (u32, usize, usize, u32);
    /// Pre-allocates the event logs (hook; a reallocating Vec::push is a symbolic-size memcpy for CBMC).
    #[cfg(feature = "events")]
    fn reserve_events(a: &mut Self::Arch, additional: usize);
    fn get_slot(a: &Self::Arch, at: usize) -> (u32, u32);
    /// `(val, aux, columns consistent)` of dense cell `at`, read through the public slice API.
    fn get_vals(a: &mut Self::Arch, at: usize) -> (u8, u32, bool);

    /// Component tuple derived from `(val, aux)`.
    fn mk(val: u8, aux: u32) -> <Self::Arch as Archetype>::Components;
    /// Inverse of `mk` on an owned tuple (forgets it afterwards: no drop is run).
    fn un(c: <Self::Arch as Archetype>::Components) -> (u8, u32, bool);

    /// `ecs_find!` on this world with the given key; the closure asks for the entity handle
    /// and the first column and reports `(raw handle seen, val seen)`.
    fn q_find(w: &mut Self::World, k: Key<Self::Arch>) -> Option<((u32, u32), u8)>;
    /// Same through `ecs_find_borrow!`.
    fn q_find_borrow(w: &Self::World, k: Key<Self::Arch>) -> Option<((u32, u32), u8)>;
    /// `(raw handle, val)` of an item of `Archetype::iter` / `iter_mut`.
    fn iter_item_raw(item: &<Self::Arch as Archetype>::IterItem<'_>) -> ((u32, u32), u8);
    fn iter_mut_item_raw(item: &<Self::Arch as Archetype>::IterItemMut<'_>) -> ((u32, u32), u8);
}

impl<A: Archetype> Clone for Key<A> {
    fn clone(&self) -> Self {
        *self
    }
}
impl<A: Archetype> Copy for Key<A> {}

/// The four key kinds of the API.
pub enum Key<A: Archetype> {
    Typed(Entity<A>),
    Any(EntityAny),
    Direct(EntityDirect<A>),
    DirectAny(EntityDirectAny),
}

/// Writes model `m` into a fresh real storage of capacity `N` through the hooks.
pub fn load<M: MArch, const N: usize>(m: &Model<N>) -> M::World {
    let mut world = M::new_world(N);
    load_into::<M, N>(&mut world, m);
    world
}

/// Writes model `m` into archetype `M` of an existing world; that archetype must be fresh
/// (nothing created in it yet) and have capacity exactly `N`.
pub fn load_into<M: MArch, const N: usize>(world: &mut M::World, m: &Model<N>) {
    {
        let a = M::arch_mut(world);
        assert!(a.capacity() == N && a.len() == 0, "HARNESS-BOUND: load_into needs a fresh archetype of capacity N");
        let mut i = 0;
        while i < N {
            M::set_slot(a, i, m.slot_idx[i], m.slot_ver[i]);
            i += 1;
        }
        let mut i = 0;
        while i < N {
            if i < m.len {
                M::set_cell(a, i, m.ent_slot[i], m.ent_ver[i], m.val[i], m.aux[i]);
            }
            i += 1;
        }
        M::set_raw(a, m.version, m.len, m.free_head);
    }
}

/// Reads a real storage whose capacity is exactly `N` back into a model.
/// Handles come from the public `entities()` slice, values from the public slice accessors,
/// slots / free head / version from the hooks.
pub fn read<M: MArch, const N: usize>(world: &mut M::World) -> Model<N> {
    let a = M::arch_mut(world);
    let (version, len, cap, free_head) = M::get_raw(a);
    assert!(cap == N, "capacity differs from the model's");
    assert!(a.len() == len && a.capacity() == cap);
    // the public version accessor reports the storage's version (ArchetypeVersion is repr(transparent) over NonZeroU32)
    assert!(unsafe { std::mem::transmute::<gecs::version::ArchetypeVersion, u32>(a.version()) } == version, "Archetype::version() differs from the storage's version");
    let mut m = Model {
        version,
        len,
        free_head,
        slot_idx: [0; N],
        slot_ver: [0; N],
        ent_slot: [0; N],
        ent_ver: [0; N],
        val: [0; N],
        aux: [0; N],
        ok: [true; N],
    };
    assert!(len <= N, "len exceeds capacity");
    assert!(a.entities().len() == len);
    let mut i = 0;
    while i < N {
        let (si, sv) = M::get_slot(a, i);
        m.slot_idx[i] = si;
        m.slot_ver[i] = sv;
        if i < len {
            let (key, ver) = a.entities()[i].into_any().raw();
            m.ent_slot[i] = if (key & 0xff) as u8 == M::ID { key >> 8 } else { u32::MAX };
            m.ent_ver[i] = ver;
            let (v, x, ok) = M::get_vals(a, i);
            m.val[i] = v;
            m.aux[i] = x;
            m.ok[i] = ok;
        }
        i += 1;
    }
    m
}

/// Implements `MArch` for a marker type.
///
/// `model_arch!(Marker, World, WorldCapacity { field: cap, other: 0 }, Arch, field, ID, COLS,
///              mk = |v, x| Components { .. }, un = |c| (val, aux, ok),
///              get = |a, i| (val, aux, ok));`
#[macro_export]
macro_rules! model_arch {
    (
        $marker:ident, $world:ident, |$cap:ident| $mkworld:expr, $arch:ident, $field:ident, $id:expr, $cols:expr, $mask:expr,
        mk = |$v:ident, $x:ident| $mk:expr,
        un = |$c:ident| $un:expr,
        get = |$a:ident, $i:ident| $get:expr,
        first = $first:ident, $fi:tt, |$f:ident| $fval:expr
    ) => {
        pub struct $marker;
        impl $crate::model::MArch for $marker {
            type World = $world;
            type Arch = $arch;
            const ID: u8 = $id;
            const COLUMNS: usize = $cols;
            const AUX_MASK: u32 = $mask;

            fn new_world($cap: usize) -> $world {
                $mkworld
            }
            fn arch(w: &$world) -> &$arch {
                &w.$field
            }
            fn arch_mut(w: &mut $world) -> &mut $arch {
                &mut w.$field
            }
            fn set_raw(a: &mut $arch, version: u32, len: usize, free_head: u32) {
                unsafe { a.data.__verif_set_raw(version, len, free_head) }
            }
            fn set_capacity(a: &mut $arch, capacity: usize) {
                unsafe { a.data.__verif_set_capacity(capacity) }
            }
            fn set_slot(a: &mut $arch, at: usize, index: u32, version: u32) {
                unsafe { a.data.__verif_set_slot(at, index, version) }
            }
            fn set_cell(a: &mut $arch, at: usize, slot: u32, version: u32, val: u8, aux: u32) {
                unsafe { a.data.__verif_set_cell(at, slot, version, Self::mk(val, aux)) }
            }
            fn get_raw(a: &$arch) -> (u32, usize, usize, u32) {
                a.data.__verif_get_raw()
            }
            #[cfg(feature = "events")]
            fn reserve_events(a: &mut $arch, additional: usize) {
                a.data.__verif_reserve_events(additional)
            }
            fn get_slot(a: &$arch, at: usize) -> (u32, u32) {
                a.data.__verif_get_slot(at)
            }
            fn get_vals($a: &mut $arch, $i: usize) -> (u8, u32, bool) {
                $get
            }
            fn mk($v: u8, $x: u32) -> <$arch as gecs::traits::Archetype>::Components {
                $mk
            }
            fn un($c: <$arch as gecs::traits::Archetype>::Components) -> (u8, u32, bool) {
                let r = $un;
                ::std::mem::forget($c);
                r
            }
            fn iter_item_raw(item: &<$arch as gecs::traits::Archetype>::IterItem<'_>) -> ((u32, u32), u8) {
                let $f = item.$fi;
                (item.0.into_any().raw(), $fval)
            }
            fn iter_mut_item_raw(item: &<$arch as gecs::traits::Archetype>::IterItemMut<'_>) -> ((u32, u32), u8) {
                let $f = &*item.$fi;
                (item.0.into_any().raw(), $fval)
            }
            fn q_find(w: &mut $world, k: $crate::model::Key<$arch>) -> Option<((u32, u32), u8)> {
                use $crate::model::Key;
                match k {
                    Key::Typed(h) => ecs_find!(w, h, |e: &Entity<$arch>, $f: &$first| (e.into_any().raw(), $fval)),
                    Key::Any(h) => ecs_find!(w, h, |e: &Entity<$arch>, $f: &$first| (e.into_any().raw(), $fval)),
                    Key::Direct(h) => ecs_find!(w, h, |e: &Entity<$arch>, $f: &$first| (e.into_any().raw(), $fval)),
                    Key::DirectAny(h) => ecs_find!(w, h, |e: &Entity<$arch>, $f: &$first| (e.into_any().raw(), $fval)),
                }
            }
            fn q_find_borrow(w: &$world, k: $crate::model::Key<$arch>) -> Option<((u32, u32), u8)> {
                use $crate::model::Key;
                match k {
                    Key::Typed(h) => ecs_find_borrow!(w, h, |e: &Entity<$arch>, $f: &$first| (e.into_any().raw(), $fval)),
                    Key::Any(h) => ecs_find_borrow!(w, h, |e: &Entity<$arch>, $f: &$first| (e.into_any().raw(), $fval)),
                    Key::Direct(h) => ecs_find_borrow!(w, h, |e: &Entity<$arch>, $f: &$first| (e.into_any().raw(), $fval)),
                    Key::DirectAny(h) => ecs_find_borrow!(w, h, |e: &Entity<$arch>, $f: &$first| (e.into_any().raw(), $fval)),
                }
            }
        }
    };
}

/// Every read path and every write path of the API for one entity of archetype `Self`
/// (all columns at once). Implemented by `paths_impl!`.
pub trait Paths: MArch {
    const READ_PATHS: u8 = 12;
    const WRITE_PATHS: u8 = 10;
    /// Reads all columns of entity `h` through read path `path`, decoded to `(val, aux, ok)`.
    fn read_via(w: &mut Self::World, h: Entity<Self::Arch>, path: u8) -> Option<(u8, u32, bool)>;
    /// Writes the columns derived from `(v, x)` to entity `h` through write path `path`.
    fn write_via(w: &mut Self::World, h: Entity<Self::Arch>, path: u8, v: u8, x: u32) -> bool;
    /// Reads all columns through a key of ANY kind (typed, dynamic, direct, direct-dynamic):
    /// path 0 ecs_find!, 1 ecs_find_borrow!, 2 Archetype::view fields, 3 Archetype::borrow +
    /// component, 4 Archetype::resolve + get_slice.
    fn read_key(w: &mut Self::World, k: Key<Self::Arch>, path: u8) -> Option<(u8, u32, bool)>;
}

pub const READ_PATH_NAMES: [&str; 12] = [
    "ecs_find!", "ecs_find_borrow!", "ecs_iter!", "ecs_iter_borrow!", "view fields", "View::component",
    "Borrow::component", "resolve + get_slice", "get_all_slices_mut", "Archetype::iter", "Archetype::iter_mut",
    "resolve + borrow_slice",
];
pub const WRITE_PATH_NAMES: [&str; 10] = [
    "ecs_find! &mut", "ecs_find_borrow! &mut", "ecs_iter! &mut", "ecs_iter_borrow! &mut", "view fields",
    "View::component_mut", "Borrow::component_mut", "get_slice_mut", "get_all_slices_mut", "Archetype::iter_mut",
];

/// `paths_impl!(Marker, Arch, ArchComponents, |v, x| [(field, Type, value expr), ...]);`
/// `field` is the snake-case field name the macros generate for `Type`.
#[macro_export]
macro_rules! paths_impl {
    ($marker:ident, $arch:ident, $comps:ident, |$v:ident, $x:ident| [ $( ($n:ident, $t:ident, $val:expr) ),* ]) => {
        impl $crate::model::Paths for $marker {
            fn read_via(w: &mut <Self as $crate::model::MArch>::World, h: Entity<$arch>, path: u8) -> Option<(u8, u32, bool)> {
                use $crate::model::MArch;
                match path {
                    0 => ecs_find!(w, h, |$($n: &$t),*| Self::un($comps { $($n: *$n),* })),
                    1 => ecs_find_borrow!(w, h, |$($n: &$t),*| Self::un($comps { $($n: *$n),* })),
                    2 => {
                        let mut out = None;
                        ecs_iter!(w, |e: &Entity<$arch>, $($n: &$t),*| {
                            if *e == h { out = Some(Self::un($comps { $($n: *$n),* })); }
                        });
                        out
                    }
                    3 => {
                        let mut out = None;
                        ecs_iter_borrow!(w, |e: &Entity<$arch>, $($n: &$t),*| {
                            if *e == h { out = Some(Self::un($comps { $($n: *$n),* })); }
                        });
                        out
                    }
                    4 => {
                        let view = Self::arch_mut(w).view(h)?;
                        Some(Self::un($comps { $($n: *view.$n),* }))
                    }
                    5 => {
                        let view = w.view::<$arch, _>(h)?;
                        Some(Self::un($comps { $($n: *view.component::<$t>()),* }))
                    }
                    6 => {
                        let b = w.borrow::<$arch, _>(h)?;
                        let r = Self::un($comps { $($n: *b.component::<$t>()),* });
                        Some(r)
                    }
                    7 => {
                        let a = Self::arch_mut(w);
                        let i = a.resolve(h)?;
                        Some(Self::un($comps { $($n: a.get_slice::<$t>()[i]),* }))
                    }
                    8 => {
                        let a = Self::arch_mut(w);
                        let i = a.resolve(h)?;
                        let s = a.get_all_slices_mut();
                        Some(Self::un($comps { $($n: s.$n[i]),* }))
                    }
                    9 => {
                        let a = Self::arch_mut(w);
                        let mut out = None;
                        for (e, $($n),*) in a.iter() {
                            if *e == h { out = Some(Self::un($comps { $($n: *$n),* })); }
                        }
                        out
                    }
                    10 => {
                        let a = Self::arch_mut(w);
                        let mut out = None;
                        for (e, $($n),*) in a.iter_mut() {
                            if *e == h { out = Some(Self::un($comps { $($n: *$n),* })); }
                        }
                        out
                    }
                    _ => {
                        let a = Self::arch_mut(w);
                        let i = a.resolve(h)?;
                        let r = Self::un($comps { $($n: a.borrow_slice::<$t>()[i]),* });
                        Some(r)
                    }
                }
            }

            fn read_key(w: &mut <Self as $crate::model::MArch>::World, k: $crate::model::Key<$arch>, path: u8) -> Option<(u8, u32, bool)> {
                use $crate::model::{Key, MArch};
                macro_rules! with_key {
                    ($kk:ident => $e:expr) => {
                        match k {
                            Key::Typed($kk) => $e,
                            Key::Any($kk) => $e,
                            Key::Direct($kk) => $e,
                            Key::DirectAny($kk) => $e,
                        }
                    };
                }
                match path {
                    0 => with_key!(kk => ecs_find!(w, kk, |$($n: &$t),*| Self::un($comps { $($n: *$n),* }))),
                    1 => with_key!(kk => ecs_find_borrow!(w, kk, |$($n: &$t),*| Self::un($comps { $($n: *$n),* }))),
                    2 => with_key!(kk => {
                        let view = Self::arch_mut(w).view(kk)?;
                        Some(Self::un($comps { $($n: *view.$n),* }))
                    }),
                    3 => with_key!(kk => {
                        let a = Self::arch_mut(w);
                        let b = a.borrow(kk)?;
                        let r = Self::un($comps { $($n: *b.component::<$t>()),* });
                        Some(r)
                    }),
                    _ => with_key!(kk => {
                        let a = Self::arch_mut(w);
                        let i = a.resolve(kk)?;
                        Some(Self::un($comps { $($n: a.get_slice::<$t>()[i]),* }))
                    }),
                }
            }

            fn write_via(w: &mut <Self as $crate::model::MArch>::World, h: Entity<$arch>, path: u8, $v: u8, $x: u32) -> bool {
                use $crate::model::MArch;
                match path {
                    0 => ecs_find!(w, h, |$($n: &mut $t),*| { $( *$n = $val; )* }).is_some(),
                    1 => ecs_find_borrow!(w, h, |$($n: &mut $t),*| { $( *$n = $val; )* }).is_some(),
                    2 => {
                        let mut hit = false;
                        ecs_iter!(w, |e: &Entity<$arch>, $($n: &mut $t),*| {
                            if *e == h { $( *$n = $val; )* hit = true; }
                        });
                        hit
                    }
                    3 => {
                        let mut hit = false;
                        ecs_iter_borrow!(w, |e: &Entity<$arch>, $($n: &mut $t),*| {
                            if *e == h { $( *$n = $val; )* hit = true; }
                        });
                        hit
                    }
                    4 => match Self::arch_mut(w).view(h) {
                        Some(view) => { $( *view.$n = $val; )* true }
                        None => false,
                    },
                    5 => match w.view::<$arch, _>(h) {
                        Some(mut view) => { $( *view.component_mut::<$t>() = $val; )* true }
                        None => false,
                    },
                    6 => match w.borrow::<$arch, _>(h) {
                        Some(b) => { $( *b.component_mut::<$t>() = $val; )* true }
                        None => false,
                    },
                    7 => {
                        let a = Self::arch_mut(w);
                        match a.resolve(h) {
                            Some(i) => { $( a.get_slice_mut::<$t>()[i] = $val; )* true }
                            None => false,
                        }
                    }
                    8 => {
                        let a = Self::arch_mut(w);
                        match a.resolve(h) {
                            Some(i) => { let s = a.get_all_slices_mut(); $( s.$n[i] = $val; )* true }
                            None => false,
                        }
                    }
                    _ => {
                        let a = Self::arch_mut(w);
                        let mut hit = false;
                        for (e, $($n),*) in a.iter_mut() {
                            if *e == h { $( *$n = $val; )* hit = true; }
                        }
                        hit
                    }
                }
            }
        }
    };
}
