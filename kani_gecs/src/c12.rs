//! C12 — len and capacity are exact; creation respects capacity and the 2^24 limit.

use crate::model::*;
use crate::steps::*;
use crate::sym;
use crate::worlds::{w1, w3};
use crate::{cover, harness};
use gecs::prelude::*;

/// Observable bookkeeping in an arbitrary Inv state + one arbitrary operation.
pub fn bookkeeping_step<M: MArch, const N: usize>(op: u8) {
    let m: Model<N> = Model::any_inv();
    assume_no_overflow(&m);
    let mut world = load::<M, N>(&m);
    {
        let a = M::arch(&world);
        assert!(a.len() == m.len && a.capacity() == N && a.is_empty() == (m.len == 0) && a.len() <= a.capacity(), "len/capacity/is_empty disagree with the live entities");
        assert!(a.entities().len() == m.len);
    }
    let (mut w_refused, mut w_lastfree, mut w_emptied, mut w_grew) = (false, false, false, false);
    match op {
        0 => {
            // create_within_capacity: Ok iff len < capacity; capacity unchanged; argument returned otherwise
            let v = sym::any_u8();
            let x = sym::any_u32();
            let r = world.create_within_capacity::<M::Arch>(M::mk(v, x));
            let a = M::arch(&world);
            assert!(a.capacity() == N, "create_within_capacity changed capacity");
            match r {
                Ok(_) => {
                    assert!(m.len < N, "create_within_capacity succeeded on a full archetype");
                    assert!(a.len() == m.len + 1);
                }
                Err(c) => {
                    assert!(m.len == N, "create_within_capacity refused although len < capacity");
                    let (rv, rx, ok) = M::un(c);
                    assert!(rv == v && ok && (rx ^ x) & M::AUX_MASK == 0, "create_within_capacity returned another value than its argument");
                    assert!(a.len() == m.len);
                    let post: Model<N> = read::<M, N>(&mut world);
                    assert_unchanged::<M, N>(&m, &post);
                }
            }
            w_refused = m.len == N;
            w_lastfree = N == 0 || m.len + 1 == N;
        }
        1 => {
            // destroy with an arbitrary issued-like handle
            let (key, ver) = any_issued_like::<N>();
            sym::assume(ver != 0);
            let h = EntityAny::from_raw((key, ver)).ok().unwrap();
            let hit = M::arch_mut(&mut world).destroy(h).map(|c| M::un(c)).is_some();
            let a = M::arch(&world);
            assert!(a.capacity() == N, "destroy changed capacity");
            assert!(a.len() == m.len - hit as usize && a.is_empty() == (a.len() == 0), "len after destroy");
            let post: Model<N> = read::<M, N>(&mut world);
            assert!(post.inv(), "free-list accounting broken by destroy");
            w_emptied = hit && m.len == 1;
        }
        _ => {
            // create (growing when full): capacity never decreases, stays >= len
            let _ = world.create::<M::Arch>(M::mk(sym::any_u8(), sym::any_u32()));
            let a = M::arch(&world);
            assert!(a.len() == m.len + 1 && a.capacity() >= N && a.capacity() >= a.len(), "len/capacity after create");
            if m.len < N {
                assert!(a.capacity() == N, "create reallocated although there was room (with_capacity(n) must permit n creations without growing)");
            }
            w_grew = m.len == N;
        }
    }
    cover!(op != 0 || w_refused, "full: refused");
    cover!(op != 0 || w_lastfree, "last free position taken");
    cover!(op != 1 || w_emptied, "last entity destroyed: empty again");
    cover!(op != 2 || w_grew, "grew");
    std::mem::forget(world);
}

/// Refill: from an arbitrary Inv state exactly `capacity - len` creations succeed within
/// capacity and the next one fails — every position freed by any pattern of removals is reusable.
pub fn refill<M: MArch, const N: usize>() {
    let m: Model<N> = Model::any_inv();
    let mut world = load::<M, N>(&m);
    let mut created = 0;
    let mut i = 0;
    while i < N {
        if M::arch(&world).len() < N {
            match world.create_within_capacity::<M::Arch>(M::mk(i as u8, 0)) {
                Ok(_) => created += 1,
                Err(c) => {
                    std::mem::forget(c);
                    panic!("a free position could not be reused: create_within_capacity failed below capacity");
                }
            }
        }
        i += 1;
    }
    assert!(created == N - m.len && M::arch(&world).len() == N && M::arch(&world).capacity() == N, "refill did not reach exactly capacity");
    match world.create_within_capacity::<M::Arch>(M::mk(0, 0)) {
        Ok(_) => panic!("create_within_capacity succeeded beyond capacity"),
        Err(c) => std::mem::forget(c),
    }
    let post: Model<N> = read::<M, N>(&mut world);
    assert!(post.inv() && post.len == N && post.free_head == FREE_END, "full archetype must have an empty free list");
    // the pre-state entities are all still there
    let mut i = 0;
    while i < N {
        if i < m.len {
            let (k, g) = m.handle_raw(M::ID, i);
            assert!(post.lookup(M::ID, k, g) == Some(i), "refill disturbed an existing entity");
        }
        i += 1;
    }
    cover!(m.len == 0, "refilled from empty with an arbitrary free-list order");
    cover!(N < 3 || m.len == 1, "refilled two or more positions");
    std::mem::forget(world);
}

/// Capacity independence of the non-growing step operations. Every other step harness fixes the
/// capacity at N <= 5 and the text argues that no operation branches on how LARGE the capacity is.
/// Here that is decided: the storage's capacity FIELD is an arbitrary value in N..=2^24 laid over a
/// real allocation of N cells (all live positions, free-list links and probed positions below N,
/// so nothing beyond the allocation is ever legitimately touched), and one destroy /
/// create_within_capacity behaves exactly as at capacity N: same transition relation, capacity
/// unchanged, every generation kept. (Growth reallocates with a symbolic size, which CBMC cannot
/// do; its arithmetic is decided for all capacities by the E2 kernels `growth` / `admission`.)
pub fn symcap_step<M: MArch, const N: usize>(op: u8) {
    let m: Model<N> = Model::any_inv();
    assume_no_overflow(&m);
    let mut world = load::<M, N>(&m);
    let cap = sym::any_usize();
    sym::assume(cap >= N && cap <= MAX_CAP);
    M::set_capacity(M::arch_mut(&mut world), cap);
    assert!(M::arch(&world).capacity() == cap && M::arch(&world).len() == m.len);
    match op {
        0 => {
            let k = sym::any_usize();
            sym::assume(k < m.len);
            let (k0, g0) = m.handle_raw(M::ID, k);
            let any = EntityAny::from_raw((k0, g0)).ok().unwrap();
            let dynamic = sym::any_bool();
            if dynamic {
                assert!(world.destroy(any).is_some(), "destroy of a live entity failed");
            } else {
                let h: Entity<M::Arch> = any.try_into().ok().unwrap();
                let c = M::arch_mut(&mut world).destroy(h);
                assert!(c.is_some(), "destroy of a live entity failed");
                std::mem::forget(c);
            }
            assert!(M::arch(&world).capacity() == cap, "destroy changed the capacity (the capacity of an archetype never shrinks; every position keeps its generation)");
            assert!(M::arch(&world).len() + 1 == m.len, "len after destroy");
            M::set_capacity(M::arch_mut(&mut world), N);
            let post: Model<N> = read::<M, N>(&mut world);
            assert_destroyed::<M, N>(&m, &post, k);
        }
        _ => {
            sym::assume(m.len < N);
            let v = sym::any_u8();
            let x = sym::any_u32();
            let e = match M::arch_mut(&mut world).create_within_capacity(M::mk(v, x)) {
                Ok(e) => e,
                Err(c) => {
                    std::mem::forget(c);
                    panic!("create_within_capacity refused although len < capacity");
                }
            };
            assert!(M::arch(&world).capacity() == cap, "create_within_capacity changed the capacity");
            M::set_capacity(M::arch_mut(&mut world), N);
            let post: Model<N> = read::<M, N>(&mut world);
            assert_created::<M, N, N>(&m, &post, e.into_any().raw(), v, x);
        }
    }
    cover!(cap > 1 << 20, "capacity field far above the allocation");
    cover!(cap == N, "capacity field equal to the allocation");
    cover!(op != 0 || m.len == 1, "the destroy empties the archetype");
    std::mem::forget(world);
}

/// with_capacity(n) permits n creations without reallocation (public API only, no hooks).
pub fn with_capacity_fill<const N: usize>() {
    use w1::*;
    let mut world = W1::both(N, 0);
    assert!(world.arch_foo.capacity() == N && world.arch_foo.len() == 0 && world.arch_foo.is_empty());
    let mut i = 0;
    while i < N {
        assert!(world.create_within_capacity::<ArchFoo>((CA(i as u8),)).is_ok(), "with_capacity(n) did not permit n creations");
        assert!(world.arch_foo.len() == i + 1 && world.arch_foo.capacity() == N);
        i += 1;
    }
    assert!(world.create_within_capacity::<ArchFoo>((CA(0),)).is_err());
    let e = world.create::<ArchFoo>((CA(9),));
    assert!(world.arch_foo.len() == N + 1 && world.arch_foo.capacity() >= N + 1, "growth");
    assert!(world.contains(e));
    cover!(true, "filled and grown");
    std::mem::forget(world);
}

/// The 2^24 limit (hook-built state: len == capacity == 2^24, allocation untouched).
pub fn limit_within_capacity() {
    use w1::*;
    let mut world = Foo::new_world(0);
    Foo::set_capacity(&mut world.arch_foo, MAX_CAP);
    Foo::set_raw(&mut world.arch_foo, 1, MAX_CAP, FREE_END);
    let r = world.create_within_capacity::<ArchFoo>((CA(3),));
    assert!(r.is_err(), "create_within_capacity succeeded at the 2^24 limit");
    assert!(world.arch_foo.len() == MAX_CAP && world.arch_foo.capacity() == MAX_CAP, "limit refusal changed len/capacity");
    cover!(true, "refused at the limit");
    std::mem::forget(r);
    std::mem::forget(world);
}

pub fn limit_create_panics() {
    use w1::*;
    let mut world = Foo::new_world(0);
    Foo::set_capacity(&mut world.arch_foo, MAX_CAP);
    Foo::set_raw(&mut world.arch_foo, 1, MAX_CAP, FREE_END);
    let _ = world.create::<ArchFoo>((CA(3),));
    cover!(true, "UNREACHABLE: create returned at the 2^24 limit");
    std::mem::forget(world);
}

pub fn limit_with_capacity_panics() {
    use w1::*;
    let n = sym::any_usize();
    sym::assume(n > MAX_CAP);
    let world = ArchFoo::with_capacity(n);
    cover!(true, "UNREACHABLE: with_capacity beyond 2^24 returned");
    std::mem::forget(world);
}

/// with_capacity(0): nothing allocated, first create grows.
pub fn zero_capacity() {
    use w1::*;
    let mut world = W1::new();
    assert!(world.arch_foo.capacity() == 0 && world.arch_foo.is_empty());
    assert!(world.create_within_capacity::<ArchFoo>((CA(1),)).is_err());
    let e = world.create::<ArchFoo>((CA(1),));
    assert!(world.arch_foo.len() == 1 && world.arch_foo.capacity() >= 1 && world.contains(e));
    cover!(true, "grew from zero");
    std::mem::forget(world);
}

/// Public API only, no hooks, no pre-allocated logs: fill to capacity, destroy an arbitrary
/// entity, refill; repeat. create_within_capacity succeeds exactly when len < capacity — also
/// with the `events` feature and logs that were never cleared.
pub fn refill_api<const N: usize>() {
    use w1::*;
    let mut world = W1::both(N, 0);
    let mut hs = [None; N];
    let mut i = 0;
    while i < N {
        let r = world.create_within_capacity::<ArchFoo>((CA(i as u8),));
        assert!(r.is_ok(), "create_within_capacity refused although len < capacity");
        hs[i] = r.ok();
        i += 1;
    }
    assert!(world.create_within_capacity::<ArchFoo>((CA(9),)).is_err(), "create_within_capacity succeeded on a full archetype");
    let mut round = 0;
    while round < 2 {
        let k = sym::any_usize();
        sym::assume(k < N);
        assert!(world.destroy(hs[k].unwrap()).is_some());
        assert!(world.arch_foo.len() == N - 1 && world.arch_foo.capacity() == N);
        let r = world.create_within_capacity::<ArchFoo>((CA(50 + round as u8),));
        assert!(r.is_ok(), "a freed position could not be reused: create_within_capacity refused although len < capacity");
        hs[k] = r.ok();
        assert!(world.arch_foo.len() == N && world.arch_foo.capacity() == N);
        round += 1;
    }
    assert!(world.create_within_capacity::<ArchFoo>((CA(9),)).is_err());
    cover!(true, "two destroy/refill rounds");
    std::mem::forget(world);
}

/// World::with_capacity hands every archetype ITS OWN requested capacity (generated mapping from
/// the capacity struct to the archetype fields), in a world whose explicit ids are not monotone
/// in declaration order; the archetypes then admit that many creations without growing.
pub fn world_capacity_mapping() {
    use crate::worlds::wmx::*;
    let c0 = sym::any_usize();
    let c1 = sym::any_usize();
    let c2 = sym::any_usize();
    sym::assume(c0 <= 2 && c1 <= 2 && c2 <= 2);
    let mut world = WMX::with_capacity(WMXCapacity { arch_tp: c0, arch_pt: c1, arch_pp: c2 });
    assert!(world.arch_tp.capacity() >= c0, "World::with_capacity: an archetype got less than the capacity requested for it");
    assert!(world.arch_pt.capacity() >= c1, "World::with_capacity: an archetype got less than the capacity requested for it");
    assert!(world.arch_pp.capacity() >= c2, "World::with_capacity: an archetype got less than the capacity requested for it");
    assert!(world.arch_tp.is_empty() && world.arch_pt.is_empty() && world.arch_pp.is_empty());
    let mut i = 0;
    while i < 2 {
        if i < c2 {
            assert!(world.create_within_capacity::<ArchPp>((Plain(i as u32),)).is_ok(), "World::with_capacity(n) did not permit n creations in that archetype");
        }
        if i < c1 {
            let r = world.create_within_capacity::<ArchPt>((Plain(i as u32), Tok(i as u8)));
            assert!(r.is_ok(), "World::with_capacity(n) did not permit n creations in that archetype");
            std::mem::forget(r);
        }
        i += 1;
    }
    assert!(world.arch_pp.len() == c2 && world.arch_pt.len() == c1 && world.arch_tp.len() == 0);
    cover!(c0 == 2 && c1 == 0 && c2 == 1, "distinct capacities");
    cover!(c0 == 0 && c1 == 2 && c2 == 0, "only the middle archetype sized");
    std::mem::forget(world);
}

harness! { fn c12_world_capacity_mapping() unwind(4) { world_capacity_mapping() } }
harness! { fn c12_refill_api_2() unwind(5) { refill_api::<2>() } }
harness! { fn c12_within_foo_3() unwind(5) { bookkeeping_step::<w1::Foo, 3>(0) } }
harness! { fn c12_within_foo_0() unwind(3) { bookkeeping_step::<w1::Foo, 0>(0) } }
harness! { fn c12_within_tri_2() unwind(4) { bookkeeping_step::<w3::Tri, 2>(0) } }
harness! { fn c12_destroy_foo_3() unwind(5) { bookkeeping_step::<w1::Foo, 3>(1) } }
harness! { fn c12_destroy_foo_4() unwind(6) { bookkeeping_step::<w1::Foo, 4>(1) } }
harness! { fn c12_create_foo_3() unwind(10) { bookkeeping_step::<w1::Foo, 3>(2) } }
harness! { fn c12_create_foo_1() unwind(6) { bookkeeping_step::<w1::Foo, 1>(2) } }
harness! { fn c12_refill_foo_3() unwind(5) { refill::<w1::Foo, 3>() } }
harness! { fn c12_refill_foo_4() unwind(6) { refill::<w1::Foo, 4>() } }
harness! { fn c12_refill_tri_3() unwind(5) { refill::<w3::Tri, 3>() } }
harness! { fn c12_with_capacity_fill_3() unwind(10) { with_capacity_fill::<3>() } }
harness! { fn c12_with_capacity_fill_1() unwind(6) { with_capacity_fill::<1>() } }
harness! { fn c12_with_capacity_fill_2() unwind(8) { with_capacity_fill::<2>() } }
harness! { fn c12_zero_capacity() unwind(4) { zero_capacity() } }
harness! { fn c12_symcap_destroy_foo_3() unwind(5) { symcap_step::<w1::Foo, 3>(0) } }
harness! { fn c12_symcap_destroy_foo_1() unwind(3) { symcap_step::<w1::Foo, 1>(0) } }
harness! { fn c12_symcap_within_foo_3() unwind(5) { symcap_step::<w1::Foo, 3>(1) } }
harness! { fn c12_symcap_destroy_tri_2() unwind(4) { symcap_step::<w3::Tri, 2>(0) } }
harness! { fn c12_limit_within_capacity() unwind(3) { limit_within_capacity() } }
harness! { fn c12_limit_create_panics() unwind(3) { limit_create_panics() } }
harness! { fn c12_limit_with_capacity_panics() unwind(3) { limit_with_capacity_panics() } }
