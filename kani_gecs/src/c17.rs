//! C17 — event logs record exactly the creations and destructions since the last clear
//! (feature `events`). Per-step log deltas from an arbitrary Inv state whose logs already hold
//! an arbitrary number (0..2) of earlier events; world-level iterators over three archetypes
//! with symbolic log lengths (some empty) and exact size_hint at every position.

use crate::model::*;
use crate::steps::*;
use crate::sym;
use crate::{cover, harness};
use gecs::prelude::*;

pub mod we {
    use gecs::prelude::*;
    #[derive(Clone, Copy, PartialEq, Debug)]
    pub struct EA(pub u8);
    #[derive(Clone, Copy, PartialEq, Debug)]
    pub struct EB(pub u8);
    #[derive(Clone, Copy, PartialEq, Debug)]
    pub struct EC;

    ecs_world! {
        ecs_name!(WE);
        #[archetype_id(7)]
        ecs_archetype!(ArchOne, EA);
        #[archetype_id(2)]
        ecs_archetype!(ArchTwo, EA, EB);
        #[archetype_id(1)]
        ecs_archetype!(ArchThree, EC);
    }

    crate::model_arch!(
        One, WE, |cap| WE::with_capacity(WECapacity { arch_one: cap, arch_two: 0, arch_three: 0 }),
        ArchOne, arch_one, 7, 1, 0,
        mk = |v, x| ArchOneComponents { ea: EA(v) },
        un = |c| (c.ea.0, 0, true),
        get = |a, i| (a.get_slice::<EA>()[i].0, 0, true),
        first = EA, 1, |c| c.0
    );
}
use we::*;

/// Snapshot of both logs of ArchOne as raw handles (bounded length L).
fn logs<const L: usize>(world: &WE) -> ([(u32, u32); L], usize, [(u32, u32); L], usize) {
    let mut c = [(0, 0); L];
    let mut d = [(0, 0); L];
    let mut nc = 0;
    for e in world.arch_one.iter_created() {
        assert!(nc < L, "HARNESS-BOUND: created log longer than the harness bound");
        c[nc] = e.into_any().raw();
        nc += 1;
    }
    let mut nd = 0;
    for e in world.arch_one.iter_destroyed() {
        assert!(nd < L, "HARNESS-BOUND: destroyed log longer than the harness bound");
        d[nd] = e.into_any().raw();
        nd += 1;
    }
    (c, nc, d, nd)
}

/// Arbitrary Inv state of ArchOne (capacity N) with 0..=1 earlier events already logged
/// (obtained through the public API: an optional create+destroy before the hook load would
/// disturb the state, so earlier events are produced AFTER loading by a create/destroy pair
/// on a free position, which leaves the modelled state Inv and re-read).
fn state_with_history<const N: usize>() -> (WE, Model<N>) {
    state_with_history_opt::<N>(None)
}

/// `history`: Some(b) fixes whether an earlier create+destroy pair is logged, None = symbolic.
fn state_with_history_opt<const N: usize>(history: Option<bool>) -> (WE, Model<N>) {
    let m0: Model<N> = Model::any_inv();
    assume_no_overflow(&m0);
    sym::assume(m0.version < u32::MAX - 4);
    let mut world = load::<One, N>(&m0);
    // keep Vec reallocation (symbolic-size memcpy) out of the solver's way: logging then writes in place
    world.arch_one.data.__verif_reserve_events(8);
    let h = match history {
        Some(b) => b,
        None => sym::any_bool(),
    };
    if h {
        sym::assume(m0.len < N);
        let p = m0.free_head & !FREE_BIT;
        sym::assume(m0.slot_ver[p as usize] < u32::MAX - 4);
        let e = world.create::<ArchOne>((EA(99),));
        assert!(world.destroy(e).is_some());
    }
    let m: Model<N> = read::<One, N>(&mut world);
    (world, m)
}

/// One operation: the log delta is exactly the operation's handle, once; failures log nothing.
pub fn log_delta<const N: usize>(op: u8) {
    let (mut world, m) = state_with_history::<N>();
    assume_no_overflow(&m);
    let (c0, nc0, d0, nd0) = logs::<4>(&world);
    let mut exp_created: Option<(u32, u32)> = None;
    let mut exp_destroyed: Option<(u32, u32)> = None;
    let (mut w_hit, mut w_miss) = (false, false);
    match op {
        0 => {
            let e = world.create::<ArchOne>((EA(sym::any_u8()),));
            exp_created = Some(e.into_any().raw());
        }
        1 => match world.create_within_capacity::<ArchOne>((EA(sym::any_u8()),)) {
            Ok(e) => exp_created = Some(e.into_any().raw()),
            Err(_) => w_miss = true,
        },
        2 | 3 | 4 | 5 => {
            let (key, ver) = any_issued_like::<N>();
            sym::assume(ver != 0 && (key & 0xff) as u8 == One::ID);
            let any = EntityAny::from_raw((key, ver)).ok().unwrap();
            let typed: Entity<ArchOne> = any.try_into().ok().unwrap();
            let exp = m.lookup(One::ID, key, ver);
            let hit = match op {
                2 => world.destroy(typed).is_some(),
                3 => world.destroy(any).is_some(),
                4 => world.arch_one.destroy(typed).is_some(),
                _ => world.arch_one.destroy(any).is_some(),
            };
            assert!(hit == exp.is_some());
            if hit {
                exp_destroyed = Some((key, ver));
                w_hit = true;
            } else {
                w_miss = true;
            }
        }
        6 | 7 => {
            let (idx, dv) = any_direct_like::<N>(&m);
            let d = direct_of::<One>(idx, dv);
            let exp = m.lookup_direct(One::ID, ((idx as u32) << 8) | One::ID as u32, dv);
            let hit = if op == 6 { world.destroy(d).is_some() } else { world.destroy(d.into_any()).is_some() };
            assert!(hit == exp.is_some());
            if let Some(i) = exp {
                exp_destroyed = Some(m.handle_raw(One::ID, i));
                w_hit = true;
            } else {
                w_miss = true;
            }
        }
        _ => {
            // reads and queries never touch the logs
            let mut n = 0;
            ecs_iter!(world, |_a: &EA| { n += 1; });
            let _ = world.arch_one.len();
        }
    }
    let (c1, nc1, d1, nd1) = logs::<4>(&world);
    assert!(nc1 == nc0 + exp_created.is_some() as usize, "created log did not grow by exactly the creations");
    assert!(nd1 == nd0 + exp_destroyed.is_some() as usize, "destroyed log did not grow by exactly the destructions");
    let mut i = 0;
    while i < 4 {
        if i < nc0 {
            assert!(c1[i] == c0[i], "an earlier created-event changed");
        }
        if i < nd0 {
            assert!(d1[i] == d0[i], "an earlier destroyed-event changed");
        }
        i += 1;
    }
    if let Some(h) = exp_created {
        assert!(c1[nc0] == h, "created log does not end with the handle create returned");
    }
    if let Some(h) = exp_destroyed {
        assert!(d1[nd0] == h, "destroyed log does not end with the destroyed handle");
    }
    cover!(nc0 == 1 && nd0 == 1, "logs already held earlier events");
    cover!(op < 2 || op > 7 || w_hit, "a destruction was logged");
    cover!(op == 0 || op > 7 || w_miss, "a failed operation logged nothing");
    std::mem::forget(world);
}

/// ecs_iter_destroy!: every destruction inside the loop is logged once, in order, nothing else.
/// (Pre-state built through the public API — a symbolic pre-state plus Vec pushes in a loop
/// exceeds the solver's memory; the per-destruction delta from symbolic states is decided by
/// the `log_delta` harnesses, this one adds the loop.)
pub fn log_iter_destroy<const N: usize>() {
    let mut world = WE::with_capacity(WECapacity { arch_one: N, arch_two: 0, arch_three: 0 });
    world.arch_one.data.__verif_reserve_events(8);
    let mut i = 0;
    while i < N {
        world.create::<ArchOne>((EA(i as u8),));
        i += 1;
    }
    let (_c0, nc0, _d0, nd0) = logs::<6>(&world);
    assert!(nc0 == N && nd0 == 0);
    let flags = sym::arr_bool::<N>();
    let mut order: [(u32, u32); N] = [(0, 0); N];
    let mut n = 0;
    ecs_iter_destroy!(world, |e: &EntityAny, a: &EA| {
        if flags[a.0 as usize] {
            order[n] = e.raw();
            n += 1;
            EcsStepDestroy::ContinueDestroy
        } else {
            EcsStepDestroy::Continue
        }
    });
    let (_c1, nc1, d1, nd1) = logs::<6>(&world);
    assert!(nc1 == nc0, "ecs_iter_destroy! touched the created log");
    assert!(nd1 == n, "destroyed log did not grow by exactly the destructions of the loop");
    let mut i = 0;
    while i < N {
        if i < n {
            assert!(d1[i] == order[i], "destroyed log does not list the loop's destructions in order");
        }
        i += 1;
    }
    cover!(n == N, "everything destroyed");
    cover!(N < 2 || (n == 1 && flags[0]), "exactly one destroyed");
    std::mem::forget(world);
}

/// clear_events (archetype and world level) empties both logs and changes nothing else; a
/// clone carries the same pending events (C13).
pub fn clear_and_clone<const N: usize>(world_level: bool) {
    let (mut world, m) = state_with_history_opt::<N>(Some(true));
    sym::assume(m.len < N);
    let e = world.create::<ArchOne>((EA(5),));
    let m1: Model<N> = read::<One, N>(&mut world);
    let (c0, nc0, d0, nd0) = logs::<4>(&world);
    // the clone has the same pending events
    let c = world.clone();
    let (cc, ncc, dc, ndc) = logs::<4>(&c);
    assert!(ncc == nc0 && ndc == nd0, "clone has other pending event counts");
    let mut i = 0;
    while i < 4 {
        if i < nc0 {
            assert!(cc[i] == c0[i], "clone has other pending created-events");
        }
        if i < nd0 {
            assert!(dc[i] == d0[i], "clone has other pending destroyed-events");
        }
        i += 1;
    }
    if world_level {
        world.clear_events();
    } else {
        world.arch_one.clear_events();
    }
    let (_c1, nc1, _d1, nd1) = logs::<4>(&world);
    assert!(nc1 == 0 && nd1 == 0, "clear_events left events behind");
    assert!(world.iter_created().next().is_none() && world.iter_destroyed().next().is_none());
    let m2: Model<N> = read::<One, N>(&mut world);
    assert_unchanged::<One, N>(&m1, &m2);
    assert!(world.contains(e), "clear_events affected an entity");
    // clearing the original does not clear the clone
    let (_cc2, ncc2, _dc2, ndc2) = logs::<4>(&c);
    assert!(ncc2 == nc0 && ndc2 == nd0, "clearing the original cleared the clone's events");
    cover!(nd0 == 1, "destroyed log was non-empty before the clear");
    std::mem::forget(world);
    std::mem::forget(c);
}

/// The clone's pending events alone (a light harness whose counterexamples can be replayed): from
/// an arbitrary state with an arbitrary history of pending created / destroyed events — pending
/// logs that are NOT the list of live rows: cleared earlier, or holding destroyed entities — the
/// clone reports exactly the same pending events, at archetype and at world level.
pub fn clone_events<const N: usize>() {
    let (world, _m) = state_with_history_opt::<N>(None);
    let (c0, nc0, d0, nd0) = logs::<4>(&world);
    let c = world.clone();
    let (cc, ncc, dc, ndc) = logs::<4>(&c);
    assert!(ncc == nc0, "clone has another number of pending created-events");
    assert!(ndc == nd0, "clone has another number of pending destroyed-events");
    let mut i = 0;
    while i < 4 {
        if i < nc0 {
            assert!(cc[i] == c0[i], "clone has other pending created-events");
        }
        if i < nd0 {
            assert!(dc[i] == d0[i], "clone has other pending destroyed-events");
        }
        i += 1;
    }
    assert!(c.iter_created().count() == nc0 && c.iter_destroyed().count() == nd0, "world-level iterators of the clone");
    cover!(nc0 == 0 && c.arch_one.len() > 0, "live entities but no pending created-event (cleared earlier)");
    cover!(nd0 > 0, "pending destroyed-events");
    std::mem::forget(world);
    std::mem::forget(c);
}

/// The same question on a CONCRETE short history (public API only, log lengths concrete, one
/// symbolic choice: whether the logs were cleared in between): cheap enough to stay decidable
/// whatever containers a changed `clone` builds its logs with.
pub fn clone_events_api() {
    let mut world = WE::with_capacity(WECapacity { arch_one: 2, arch_two: 2, arch_three: 2 });
    let a = world.create::<ArchOne>((EA(1),));
    let _b = world.create::<ArchOne>((EA(2),));
    let t = world.create::<ArchTwo>((EA(3), EB(0)));
    if sym::any_bool() {
        world.clear_events();
    }
    assert!(world.destroy(a).is_some());
    assert!(world.destroy(t.into_any()).is_some());
    let _n = world.create::<ArchThree>((EC,));
    let c = world.clone();
    assert!(c.iter_created().eq(world.iter_created()), "clone reports other pending created-events than the original");
    assert!(c.iter_destroyed().eq(world.iter_destroyed()), "clone reports other pending destroyed-events than the original");
    assert!(world.iter_destroyed().count() == 2 && c.iter_destroyed().count() == 2, "two destructions are pending in both worlds");
    assert!(c.iter_created().count() == world.iter_created().count());
    cover!(world.iter_created().count() == 1, "logs cleared in between: pending created-events differ from the live rows");
    std::mem::forget(world);
    std::mem::forget(c);
}

/// World-level iterators over three archetypes with symbolic log lengths 0..=2 each
/// (including empty logs at the front, in the middle and at the end): exactly the
/// concatenation, exact size_hint at every position.
pub fn world_iterators(destroyed: bool) {
    let mut world = WE::with_capacity(WECapacity { arch_one: 2, arch_two: 2, arch_three: 2 });
    let n1 = sym::any_usize();
    let n2 = sym::any_usize();
    let n3 = sym::any_usize();
    sym::assume(n1 <= 2 && n2 <= 2 && n3 <= 2);
    let mut exp: [Option<EntityAny>; 6] = [None; 6];
    let mut k = 0;
    let mut i = 0;
    while i < 2 {
        if i < n1 {
            let e = world.create::<ArchOne>((EA(i as u8),));
            if destroyed {
                world.destroy(e);
            }
            exp[k] = Some(e.into_any());
            k += 1;
        }
        i += 1;
    }
    let mut i = 0;
    while i < 2 {
        if i < n2 {
            let e = world.create::<ArchTwo>((EA(i as u8), EB(0)));
            if destroyed {
                world.destroy(e.into_any());
            }
            exp[k] = Some(e.into_any());
            k += 1;
        }
        i += 1;
    }
    let mut i = 0;
    while i < 2 {
        if i < n3 {
            let e = world.create::<ArchThree>((EC,));
            if destroyed {
                world.arch_three.destroy(e);
            }
            exp[k] = Some(e.into_any());
            k += 1;
        }
        i += 1;
    }
    if destroyed {
        check_iter(world.iter_destroyed(), &exp, k);
    } else {
        check_iter(world.iter_created(), &exp, k);
    }
    if !destroyed {
        assert!(world.iter_destroyed().next().is_none(), "destroyed log not empty although nothing was destroyed");
    }
    cover!(n1 == 0 && n2 == 2 && n3 == 1, "first archetype's log empty");
    cover!(n1 == 2 && n2 == 0 && n3 == 2, "middle archetype's log empty");
    cover!(n1 == 1 && n2 == 1 && n3 == 0, "last archetype's log empty");
    cover!(n1 == 0 && n2 == 0 && n3 == 0, "all logs empty");
    std::mem::forget(world);
}

fn check_iter<'a>(mut it: impl Iterator<Item = &'a EntityAny>, exp: &[Option<EntityAny>; 6], k: usize) {
    let mut j = 0;
    while j < 7 {
        let (lo, hi) = it.size_hint();
        let remaining = if j < k { k - j } else { 0 };
        assert!(lo == remaining && hi == Some(remaining), "size_hint is not exact");
        let nx = it.next();
        if j < k {
            assert!(nx.copied() == exp[j], "world-level event iterator is not the concatenation of the archetypes' logs");
        } else {
            assert!(nx.is_none(), "world-level event iterator yields more than the archetypes' logs");
        }
        j += 1;
    }
}

/// Every `Iterator` method an implementation could override (`nth`, `skip`, `count`, `last`,
/// `fold`/`for_each`, `size_hint` after a jump) on the world-level event iterators: the same
/// items as stepping with `next`, for jumps that end inside an archetype's log, exactly at its
/// end, over empty logs and past the end.
pub fn world_iterator_methods<const MODE: u8>(destroyed: bool) {
    let mut world = WE::with_capacity(WECapacity { arch_one: 2, arch_two: 2, arch_three: 2 });
    let n1 = sym::any_usize();
    let n2 = sym::any_usize();
    let n3 = sym::any_usize();
    sym::assume(n1 <= 2 && n2 <= 2 && n3 <= 2);
    let mut exp: [Option<EntityAny>; 6] = [None; 6];
    let mut k = 0;
    let mut i = 0;
    while i < 2 {
        if i < n1 {
            let e = world.create::<ArchOne>((EA(i as u8),));
            if destroyed {
                world.destroy(e);
            }
            exp[k] = Some(e.into_any());
            k += 1;
        }
        i += 1;
    }
    let mut i = 0;
    while i < 2 {
        if i < n2 {
            let e = world.create::<ArchTwo>((EA(i as u8), EB(0)));
            if destroyed {
                world.destroy(e.into_any());
            }
            exp[k] = Some(e.into_any());
            k += 1;
        }
        i += 1;
    }
    let mut i = 0;
    while i < 2 {
        if i < n3 {
            let e = world.create::<ArchThree>((EC,));
            if destroyed {
                world.arch_three.destroy(e);
            }
            exp[k] = Some(e.into_any());
            k += 1;
        }
        i += 1;
    }
    let a = sym::any_usize();
    let b = sym::any_usize();
    sym::assume(a <= 6 && b <= 6);
    let mode = MODE;
    if destroyed {
        check_methods(|| world.iter_destroyed(), &exp, k, a, b, mode);
    } else {
        check_methods(|| world.iter_created(), &exp, k, a, b, mode);
    }
    cover!(mode != 0 || (a == 0 && n1 == 2 && b == 2 && n2 == 0 && n3 > 0), "nth(n) with n exactly the events left in the current archetype, next log empty");
    cover!(mode != 0 || (n1 == 0 && b == 0 && k > 0), "nth(0) with the cursor on an empty log");
    cover!(mode != 1 || (a == n1 && n1 > 0 && n2 > 0), "skip() to an archetype boundary");
    cover!(mode != 0 || a + b >= k, "jump past the end");
    std::mem::forget(world);
}

fn check_methods<'a, I: Iterator<Item = &'a EntityAny>>(mk: impl Fn() -> I, exp: &[Option<EntityAny>; 6], k: usize, a: usize, b: usize, mode: u8) {
    let at = |j: usize| if j < k { exp[j] } else { None };
    match mode {
        0 => {
            // a steps, then a jump of b, then the rest by stepping
            let mut it = mk();
            let mut j = 0;
            while j < 6 {
                if j < a {
                    let _ = it.next();
                }
                j += 1;
            }
            let pos = if a < k { a } else { k };
            let got = it.nth(b).copied();
            assert!(got == at(pos + b), "world-level event iterator: nth() yields another item than stepping with next()");
            let after = if pos + b < k { pos + b + 1 } else { k };
            let (lo, hi) = it.size_hint();
            assert!(lo == k - after && hi == Some(k - after), "world-level event iterator: size_hint after nth() is not exact");
            assert!(it.next().copied() == at(after), "world-level event iterator: item after nth()");
        }
        1 => {
            let mut it = mk().skip(a);
            assert!(it.next().copied() == at(a), "world-level event iterator: skip() yields another item than stepping");
            assert!(it.next().copied() == at(a + 1), "world-level event iterator: second item after skip()");
        }
        2 => {
            assert!(mk().count() == k, "world-level event iterator: count()");
            assert!(mk().skip(a).count() == if a < k { k - a } else { 0 }, "world-level event iterator: skip().count()");
        }
        3 => {
            assert!(mk().last().copied() == if k > 0 { exp[k - 1] } else { None }, "world-level event iterator: last()");
        }
        _ => {
            let mut j = 0;
            let mut ok = true;
            mk().for_each(|e| {
                ok &= j < k && Some(*e) == exp[if j < 6 { j } else { 5 }];
                j += 1;
            });
            assert!(ok && j == k, "world-level event iterator: for_each()/fold() differs from stepping");
        }
    }
}

/// A window between two clears that holds destructions but NO creations: the second clear must
/// empty the destroyed log as well (archetype and world level).
pub fn clear_destroy_only_window<const N: usize>(world_level: bool) {
    let (mut world, _m0) = state_with_history_opt::<N>(Some(true));
    world.clear_events();
    let m: Model<N> = read::<One, N>(&mut world);
    let k = sym::any_usize();
    sym::assume(k < m.len);
    let (key, ver) = m.handle_raw(One::ID, k);
    assert!(world.destroy(EntityAny::from_raw((key, ver)).ok().unwrap()).is_some());
    let (_c, nc, d, nd) = logs::<4>(&world);
    assert!(nc == 0 && nd == 1 && d[0] == (key, ver), "destruction after a clear is not the only pending event");
    if world_level { world.clear_events(); } else { world.arch_one.clear_events(); }
    let (_c2, nc2, _d2, nd2) = logs::<4>(&world);
    assert!(nc2 == 0 && nd2 == 0, "clear_events left destroyed-events behind (window with destructions but no creations)");
    assert!(world.iter_destroyed().next().is_none());
    cover!(true, "destroy-only window cleared");
    std::mem::forget(world);
}

harness! { fn c17_clear_destroy_only_arch_2() unwind(8) { clear_destroy_only_window::<2>(false) } }
harness! { fn c17_clear_destroy_only_world_2() unwind(8) { clear_destroy_only_window::<2>(true) } }
harness! { fn c17_delta_create_2() unwind(8) { log_delta::<2>(0) } }
harness! { fn c17_delta_within_2() unwind(8) { log_delta::<2>(1) } }
harness! { fn c17_delta_destroy_wtyped_2() unwind(8) { log_delta::<2>(2) } }
harness! { fn c17_delta_destroy_wany_2() unwind(8) { log_delta::<2>(3) } }
harness! { fn c17_delta_destroy_typed_3() unwind(8) { log_delta::<3>(4) } }
harness! { fn c17_delta_destroy_any_2() unwind(8) { log_delta::<2>(5) } }
harness! { fn c17_delta_destroy_direct_2() unwind(8) { log_delta::<2>(6) } }
harness! { fn c17_delta_destroy_directany_2() unwind(8) { log_delta::<2>(7) } }
harness! { fn c17_delta_reads_2() unwind(8) { log_delta::<2>(8) } }
harness! { fn c17_iter_destroy_2() unwind(7) { log_iter_destroy::<2>() } }
harness! { fn c17_clear_arch_clone_2() unwind(6) { clear_and_clone::<2>(false) } }
harness! { fn c17_clear_world_clone_1() unwind(6) { clear_and_clone::<1>(true) } }
harness! { fn c17_clone_events_2() unwind(6) { clone_events::<2>() } }
harness! { fn c17_clone_events_api() unwind(8) { clone_events_api() } }
harness! { fn c17_world_iter_created() unwind(9) { world_iterators(false) } }
harness! { fn c17_world_iter_destroyed() unwind(9) { world_iterators(true) } }
harness! { fn c17_world_iter_nth_created() unwind(9) { world_iterator_methods::<0>(false) } }
harness! { fn c17_world_iter_nth_destroyed() unwind(9) { world_iterator_methods::<0>(true) } }
harness! { fn c17_world_iter_skip_created() unwind(9) { world_iterator_methods::<1>(false) } }
harness! { fn c17_world_iter_count_created() unwind(9) { world_iterator_methods::<2>(false) } }
harness! { fn c17_world_iter_last_destroyed() unwind(9) { world_iterator_methods::<3>(true) } }
harness! { fn c17_world_iter_for_each_created() unwind(9) { world_iterator_methods::<4>(false) } }
