//! C16 (E1 corpus) — real programs with cfg-decorated items, decided over all populations:
//! a `#[cfg(any())]` (false) archetype / component / query parameter behaves as absent, a
//! `#[cfg(all())]` (true) one as unannotated. (All truth assignments over the DATA LOGIC are
//! decided by E2; the generated `__cfg_ecs_*` macro chain itself is outside, see DESIGN.)

use crate::sym;
use crate::{cover, harness};
use gecs::prelude::*;

pub mod wc {
    use gecs::prelude::*;
    pub struct KA(pub u8);
    pub struct KB(pub u8);
    pub struct KZ(pub u8);

    ecs_world! {
        ecs_name!(WC);
        ecs_archetype!(C0, KA, #[cfg(any())] KZ, #[cfg(not(any()))] KB);   // KZ disabled: {KA=0, KB=1}
        #[cfg(any())]
        ecs_archetype!(CGone, KA, KZ);                                 // disabled: consumes no id
        #[cfg(all())]
        ecs_archetype!(C1, KB);                                        // id 1 (not 2)
    }
}
use wc::*;

pub fn decl_cfg_items() {
    // ids as if the disabled items had not been written
    assert!(C0::ARCHETYPE_ID == 0 && C1::ARCHETYPE_ID == 1 && WC::NUM_ARCHETYPES == 2, "a cfg-disabled archetype consumed an id");
    assert!(<C0 as ArchetypeHas<KA>>::COMPONENT_ID == 0 && <C0 as ArchetypeHas<KB>>::COMPONENT_ID == 1, "a cfg-disabled component consumed an id");
    let n0 = sym::any_usize();
    let n1 = sym::any_usize();
    sym::assume(n0 <= 2 && n1 <= 2);
    let mut world = WC::with_capacity(WCCapacity { c_0: 2, c_1: 2 });
    let mut i = 0;
    while i < 2 {
        if i < n0 { world.create::<C0>((KA(i as u8), KB(10 + i as u8))); }   // storage: two columns only
        if i < n1 { world.create::<C1>((KB(20 + i as u8),)); }
        i += 1;
    }
    let mut hits = 0;
    ecs_iter!(world, |b: &KB| { assert!(b.0 >= 10); hits += 1; });
    assert!(hits == n0 + n1, "matching with cfg-decorated components");
    cover!(n0 == 2 && n1 == 1, "both archetypes populated");
    std::mem::forget(world);
}

pub fn query_cfg_params() {
    let n0 = sym::any_usize();
    let n1 = sym::any_usize();
    sym::assume(n0 <= 2 && n1 <= 2);
    let mut world = WC::with_capacity(WCCapacity { c_0: 2, c_1: 2 });
    let mut i = 0;
    while i < 2 {
        if i < n0 { world.create::<C0>((KA(i as u8), KB(10 + i as u8))); }
        if i < n1 { world.create::<C1>((KB(20 + i as u8),)); }
        i += 1;
    }
    // disabled component parameter of a type that no enabled archetype has: as if not written
    let mut a = 0;
    ecs_iter!(world, |b: &KB, #[cfg(any())] z: &KZ| { a += 1; });
    assert!(a == n0 + n1, "a cfg-disabled parameter restricted the match");
    // enabled parameter: as unannotated (restricts to C0)
    let mut b = 0;
    ecs_iter_borrow!(world, |#[cfg(all())] ka: &KA, kb: &KB| { assert!(kb.0 == 10 + ka.0); b += 1; });
    assert!(b == n0, "a cfg-enabled parameter did not restrict like an unannotated one");
    // disabled typed-entity parameter: does not restrict
    let mut c = 0;
    ecs_iter!(world, |#[cfg(any())] e: &Entity<C1>, kb: &KB| { c += 1; });
    assert!(c == n0 + n1, "a cfg-disabled Entity<A> parameter restricted the match");
    // enabled typed-entity parameter restricts
    let mut d = 0;
    ecs_iter!(world, |#[cfg(all())] e: &Entity<C1>, kb: &KB| { assert!(kb.0 >= 20); d += 1; });
    assert!(d == n1, "a cfg-enabled Entity<A> parameter did not restrict");
    // disabled DIRECT-handle parameters of every kind: none restricts (EntityDirect<A> names an archetype!)
    let mut e1 = 0;
    ecs_iter!(world, |#[cfg(any())] d: &EntityDirect<C1>, kb: &KB| { e1 += 1; });
    assert!(e1 == n0 + n1, "a cfg-disabled EntityDirect<A> parameter restricted the match");
    let mut e2 = 0;
    ecs_iter_borrow!(world, |kb: &KB, #[cfg(any())] d: &EntityDirect<C0>, #[cfg(any())] x: &EntityDirectAny, #[cfg(any())] y: &EntityDirect<_>| { e2 += 1; });
    assert!(e2 == n0 + n1, "a cfg-disabled direct-handle parameter restricted the match");
    // enabled EntityDirect<A> restricts like an unannotated one
    let mut e3 = 0;
    ecs_iter!(world, |#[cfg(all())] d: &EntityDirect<C0>, kb: &KB| { assert!(kb.0 < 20); e3 += 1; });
    assert!(e3 == n0, "a cfg-enabled EntityDirect<A> parameter did not restrict");
    cover!(n0 == 1 && n1 == 2, "both archetypes populated");
    std::mem::forget(world);
}

/// Several DISTINCT predicates with different truth values in one query, in both orders, with a
/// repeated predicate, through all five query macros (the generated `__cfg_ecs_*` chain hands
/// the truth values to the binding logic in first-appearance order).
pub fn query_cfg_mixed_predicates() {
    let n0 = sym::any_usize();
    let n1 = sym::any_usize();
    sym::assume(n0 <= 2 && n1 <= 2);
    let mut world = WC::with_capacity(WCCapacity { c_0: 2, c_1: 2 });
    let mut i = 0;
    while i < 2 {
        if i < n0 { world.create::<C0>((KA(i as u8), KB(10 + i as u8))); }
        if i < n1 { world.create::<C1>((KB(20 + i as u8),)); }
        i += 1;
    }
    // true then false: KA restricts to C0, KZ is absent
    let mut a = 0;
    ecs_iter!(world, |#[cfg(all())] ka: &KA, #[cfg(any())] z: &KZ, kb: &KB| { assert!(kb.0 == 10 + ka.0); a += 1; });
    assert!(a == n0, "two predicates (true, false): truth values mixed up");
    // false then true
    let mut b = 0;
    ecs_iter_borrow!(world, |#[cfg(any())] z: &KZ, #[cfg(all())] ka: &KA, kb: &KB| { assert!(kb.0 == 10 + ka.0); b += 1; });
    assert!(b == n0, "two predicates (false, true): truth values mixed up");
    // three distinct predicates: not(any()) = true, any() = false, all() = true; one repeated
    let mut c = 0;
    ecs_iter!(world, |#[cfg(not(any()))] kb: &KB, #[cfg(any())] e: &Entity<C0>, #[cfg(all())] x: &EntityAny, #[cfg(any())] z: &KZ| { assert!(kb.0 >= 10); c += 1; });
    assert!(c == n0 + n1, "three predicates: a disabled Entity<A> parameter restricted the match or an enabled one was dropped");
    // disabled typed-entity parameter + enabled component, through find / find_borrow / iter_destroy
    if n1 > 0 {
        let h = world.c_1.entities()[0];
        let r = ecs_find!(world, h, |#[cfg(any())] e: &Entity<C0>, #[cfg(not(any()))] kb: &KB| kb.0);
        assert!(r == Some(20), "ecs_find! with mixed predicates");
        let r2 = ecs_find_borrow!(world, h.into_any(), |#[cfg(all())] kb: &KB, #[cfg(not(all()))] ka: &KA| kb.0);
        assert!(r2 == Some(20), "ecs_find_borrow! with mixed predicates");
    }
    let mut d = 0;
    ecs_iter_destroy!(world, |#[cfg(any())] e: &Entity<C1>, #[cfg(all())] kb: &KB| { d += 1; EcsStepDestroy::ContinueDestroy });
    assert!(d == n0 + n1 && world.c_0.len() == 0 && world.c_1.len() == 0, "ecs_iter_destroy! with a cfg-disabled Entity<A> parameter skipped an archetype");
    cover!(n0 == 2 && n1 == 1, "both archetypes populated");
    std::mem::forget(world);
}

/// ecs_iter_destroy! with a cfg-disabled COMPONENT parameter that only one archetype has.
pub fn iter_destroy_cfg_component() {
    let n0 = sym::any_usize();
    let n1 = sym::any_usize();
    sym::assume(n0 <= 2 && n1 <= 2);
    let mut world = WC::with_capacity(WCCapacity { c_0: 2, c_1: 2 });
    let mut i = 0;
    while i < 2 {
        if i < n0 { world.create::<C0>((KA(i as u8), KB(10 + i as u8))); }
        if i < n1 { world.create::<C1>((KB(20 + i as u8),)); }
        i += 1;
    }
    let mut d = 0;
    ecs_iter_destroy!(world, |kb: &KB, #[cfg(any())] ka: &KA| {
        d += 1;
        if kb.0 >= 20 { EcsStepDestroy::ContinueDestroy } else { EcsStepDestroy::Continue }
    });
    assert!(d == n0 + n1, "ecs_iter_destroy!: a cfg-disabled component parameter restricted the match");
    assert!(world.c_0.len() == n0 && world.c_1.len() == 0, "ecs_iter_destroy! destroyed other entities than the flagged ones");
    cover!(n0 == 1 && n1 == 2, "both archetypes populated");
    std::mem::forget(world);
}

harness! { fn c16_decl_cfg_items() unwind(4) { decl_cfg_items() } }
harness! { fn c16_query_cfg_mixed_predicates() unwind(4) { query_cfg_mixed_predicates() } }
harness! { fn c16_iter_destroy_cfg_component() unwind(4) { iter_destroy_cfg_component() } }
harness! { fn c16_query_cfg_params() unwind(4) { query_cfg_params() } }
