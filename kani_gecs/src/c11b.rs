//! C11 (continued) — clone as the OUTER access: a component's own Clone impl reaches back into the
//! world being cloned.

use crate::sym;
use crate::{cover, harness};
use gecs::prelude::*;

// ---------------------------------------------------------------------------------------------
// clone as the OUTER access: a component's own Clone impl reaches back into the world being cloned

pub mod wr {
    use gecs::prelude::*;
    pub static mut ON_CLONE: Option<fn()> = None;
    pub struct RC(pub u8);
    impl Clone for RC {
        fn clone(&self) -> Self {
            unsafe {
                if let Some(f) = ON_CLONE {
                    ON_CLONE = None; // only the first element's clone re-enters
                    f();
                }
            }
            RC(self.0)
        }
    }
    #[derive(Clone)]
    pub struct RD(pub u8);
    ecs_world! {
        ecs_name!(WR);
        ecs_archetype!(R0, RC, RD);
        ecs_archetype!(R1, RD);
    }
}
use wr::*;

static mut REENTER_WORLD: *const WR = std::ptr::null();
static mut REENTER_DONE: bool = false;

fn reenter_mut_same_column() {
    let w = unsafe { &*REENTER_WORLD };
    let g = w.r_0.borrow_slice_mut::<RC>();
    unsafe { REENTER_DONE = g.len() > 0 };
}
fn reenter_mut_other_column_same_archetype() {
    let w = unsafe { &*REENTER_WORLD };
    let g = w.r_0.borrow_slice_mut::<RD>();
    unsafe { REENTER_DONE = g.len() > 0 };
}
fn reenter_shared_and_other_archetype() {
    let w = unsafe { &*REENTER_WORLD };
    let a = w.r_0.borrow_slice::<RC>();
    let b = w.r_0.borrow_slice::<RD>();
    let c = w.r_1.borrow_slice_mut::<RD>(); // the other archetype is not being cloned right now
    unsafe { REENTER_DONE = a.len() == 2 && b.len() == 2 && c.len() == 1 };
}

/// mode 0 / 1: a mutable access to a column of the archetype being cloned, made from inside a
/// component's Clone impl, must panic (clone holds every column of that archetype borrowed);
/// mode 2: shared accesses to it and a mutable access to ANOTHER archetype succeed.
pub fn clone_reentered(mode: u8) {
    let mut world = WR::with_capacity(WRCapacity { r_0: 2, r_1: 1 });
    world.create::<R0>((RC(sym::any_u8()), RD(1)));
    world.create::<R0>((RC(2), RD(sym::any_u8())));
    world.create::<R1>((RD(3),));
    unsafe {
        REENTER_WORLD = &world as *const WR;
        REENTER_DONE = false;
        ON_CLONE = Some(match mode {
            0 => reenter_mut_same_column,
            1 => reenter_mut_other_column_same_archetype,
            _ => reenter_shared_and_other_archetype,
        });
    }
    let c = world.clone();
    if mode < 2 {
        cover!(true, "UNREACHABLE: a mutable borrow was granted while clone reads the archetype");
    }
    if mode >= 2 {
        cover!(c.r_0.len() == 2, "shared re-entry during clone succeeded");
    }
    if mode >= 2 {
        unsafe { assert!(REENTER_DONE, "re-entrant shared access during clone did not run") };
        assert!(c.r_0.len() == 2 && c.r_1.len() == 1);
    }
    std::mem::forget(c);
    std::mem::forget(world);
}

harness! { fn c11b_panic_clone_outer_mut_same_column() unwind(4) { clone_reentered(0) } }
harness! { fn c11b_panic_clone_outer_mut_other_column() unwind(4) { clone_reentered(1) } }
harness! { fn c11b_ok_clone_outer_shared_reentry() unwind(4) { clone_reentered(2) } }

// ---------------------------------------------------------------------------------------------
// the EMPTY-archetype cells of the matrix: an access that touches no entity conflicts with nothing

pub mod empty {
    use crate::sym;
    use crate::worlds::w3::*;
    use crate::{cover, harness};
    use gecs::prelude::*;

    /// ArchTri is EMPTY (possibly emptied by destroys: arbitrary history), ArchOther has entities.
    /// An outstanding guard on a column of the empty archetype does not make a borrow-style query
    /// over it panic (it visits nothing there), and the query still visits the other archetype.
    pub fn guard_on_empty_archetype(outer_mut: bool, inner: u8) {
        use crate::model::*;
        let mt: Model<2> = Model::any_inv();
        let mo: Model<2> = Model::any_inv();
        sym::assume(mt.len == 0 && mo.len == 2);
        let mut world = W3::both(2, 2);
        load_into::<Tri, 2>(&mut world, &mt);
        load_into::<Other, 2>(&mut world, &mo);
        let w = &world;
        let mut n = 0;
        if outer_mut {
            let g = w.arch_tri.borrow_slice_mut::<P>();
            match inner {
                0 => ecs_iter_borrow!(w, |_p: &P| { n += 1; }),
                1 => ecs_iter_borrow!(w, |_p: &mut P| { n += 1; }),
                _ => ecs_iter_borrow!(w, |_e: &Entity<ArchTri>, _p: &mut P, _pad: &Pad| { n += 1; }),
            }
            assert!(g.len() == 0);
        } else {
            let g = w.arch_tri.borrow_slice::<P>();
            match inner {
                0 => ecs_iter_borrow!(w, |_p: &P| { n += 1; }),
                1 => ecs_iter_borrow!(w, |_p: &mut P| { n += 1; }),
                _ => ecs_iter_borrow!(w, |_e: &Entity<ArchTri>, _p: &mut P, _pad: &Pad| { n += 1; }),
            }
            assert!(g.len() == 0);
        }
        assert!(n == if inner < 2 { 2 } else { 0 }, "a borrow-style query over an empty archetype visited something or skipped the populated archetype");
        cover!(true, "query over an empty archetype under an outstanding guard completed");
        std::mem::forget(world);
    }

    /// Break in an EARLIER archetype: columns of LATER matched archetypes are never touched, so a
    /// guard outstanding on one of them conflicts with nothing.
    pub fn break_before_guarded_archetype(outer_mut: bool) {
        use crate::model::*;
        let mt: Model<2> = Model::any_inv();
        let mo: Model<2> = Model::any_inv();
        sym::assume(mt.len >= 1 && mo.len == 2);
        let mut world = W3::both(2, 2);
        load_into::<Tri, 2>(&mut world, &mt);
        load_into::<Other, 2>(&mut world, &mo);
        let w = &world;
        let mut n = 0;
        if outer_mut {
            let g = w.arch_other.borrow_slice_mut::<P>();
            ecs_iter_borrow!(w, |_p: &mut P| { n += 1; EcsStep::Break });
            assert!(g.len() == 2);
        } else {
            let g = w.arch_other.borrow_slice::<P>();
            ecs_iter_borrow!(w, |_p: &mut P| { n += 1; EcsStep::Break });
            assert!(g.len() == 2);
        }
        assert!(n == 1, "Break did not end the query in the first archetype");
        cover!(true, "query broke before reaching the guarded archetype");
        std::mem::forget(world);
    }

    harness! { fn c11b_empty_outer_mut_inner_shared() unwind(4) { guard_on_empty_archetype(true, 0) } }
    harness! { fn c11b_empty_outer_shared_inner_mut() unwind(4) { guard_on_empty_archetype(false, 1) } }
    harness! { fn c11b_empty_outer_mut_inner_typed() unwind(4) { guard_on_empty_archetype(true, 2) } }
    harness! { fn c11b_break_before_guarded_mut() unwind(4) { break_before_guarded_archetype(true) } }
    harness! { fn c11b_break_before_guarded_shared() unwind(4) { break_before_guarded_archetype(false) } }
}

pub mod leaked {
    use crate::model::*;
    use crate::sym;
    use crate::worlds::w3::*;
    use crate::{cover, harness};
    use gecs::prelude::*;

    /// The statically checked (`&mut self`) API never consults the cells: after a guard was leaked
    /// with `mem::forget` (no reference alive, only the flag left set) iter / iter_mut / the slice
    /// accessors / view / ecs_iter! / ecs_find! still work and see every entity with its own values.
    pub fn static_api_after_leak(col: u8) {
        let m: Model<2> = Model::any_inv();
        sym::assume(m.len >= 1);
        let mut world = load::<Tri, 2>(&m);
        match col {
            0 => std::mem::forget(world.arch_tri.borrow_slice_mut::<P>()),
            1 => std::mem::forget(world.arch_tri.borrow_slice::<Pad>()),
            _ => {
                let (key, ver) = m.handle_raw(Tri::ID, 0);
                let h: Entity<ArchTri> = EntityAny::from_raw((key, ver)).ok().unwrap().try_into().ok().unwrap();
                let b = world.arch_tri.borrow(h).unwrap();
                std::mem::forget(b.component_mut::<Pad>());
            }
        }
        let (key, ver) = m.handle_raw(Tri::ID, 0);
        let h: Entity<ArchTri> = EntityAny::from_raw((key, ver)).ok().unwrap().try_into().ok().unwrap();
        let a = &mut world.arch_tri;
        assert!(a.iter().count() == m.len, "Archetype::iter() refused or shortened after a leaked guard");
        assert!(a.iter_mut().count() == m.len, "Archetype::iter_mut() refused or shortened after a leaked guard");
        assert!(a.get_slice::<P>().len() == m.len && a.get_slice_mut::<Pad>().len() == m.len, "slice accessors after a leaked guard");
        assert!(a.get_slice::<P>()[0].0 == m.val[0] && a.get_slice::<Pad>()[0].1 == m.aux[0]);
        {
            let s = a.get_all_slices_mut();
            assert!(s.p.len() == m.len && s.pad.len() == m.len);
        }
        {
            let v = a.view(h);
            assert!(v.is_some(), "view refused after a leaked guard");
            let v = v.unwrap();
            assert!(v.p.0 == m.val[0] && v.pad.1 == m.aux[0]);
        }
        let mut n = 0;
        ecs_iter!(world, |_e: &Entity<ArchTri>, p: &mut P, pad: &Pad| {
            n += 1;
            p.0 = p.0;
            let _ = pad.1;
        });
        assert!(n == m.len, "ecs_iter! refused or shortened after a leaked guard");
        let r = ecs_find!(world, h, |p: &mut P, pad: &mut Pad| (p.0, pad.1));
        assert!(r == Some((m.val[0], m.aux[0])), "ecs_find! refused after a leaked guard");
        cover!(m.len == 2, "two entities");
        std::mem::forget(world);
    }

    harness! { fn c11b_static_api_after_leak_mut_p() unwind(5) { static_api_after_leak(0) } }
    harness! { fn c11b_static_api_after_leak_shared_pad() unwind(5) { static_api_after_leak(1) } }
    harness! { fn c11b_static_api_after_leak_component_mut() unwind(5) { static_api_after_leak(2) } }
}
