//! C01 — a handle resolves iff its entity is alive; stale handles never resolve.
//! Inductive step per operation from an arbitrary Inv state + arbitrary 64-bit handle.

use crate::model::*;
use crate::steps::*;
use crate::sym;
use crate::worlds::{w1, w3};
use crate::{cover, harness};
use gecs::prelude::*;

/// Base case: `with_capacity(N)` yields an empty Inv state of capacity N in which every
/// handle is rejected.
pub fn base<M: MArch, const N: usize>() {
    let mut world = M::new_world(N);
    let m: Model<N> = read::<M, N>(&mut world);
    assert!(m.inv(), "with_capacity does not establish the representation invariant");
    assert!(m.len == 0, "fresh archetype not empty");
    assert!(M::arch(&world).is_empty());
    if N > 0 {
        let (key, ver) = any_issued_like::<N>();
        probe_entity::<M, N>(&mut world, &m, key, ver, P_ALL);
    }
    std::mem::forget(world);
}

/// Creation without growth from an arbitrary non-full Inv state.
pub fn step_create<M: MArch, const N: usize>(within: bool, paths: u8) {
    let m: Model<N> = Model::any_inv();
    sym::assume(m.len < N);
    let mut world = load::<M, N>(&m);
    let v = sym::any_u8();
    let x = sym::any_u32();
    let e = if within {
        match world.create_within_capacity::<M::Arch>(M::mk(v, x)) {
            Ok(e) => e,
            Err(c) => {
                std::mem::forget(c);
                panic!("create_within_capacity refused although len < capacity");
            }
        }
    } else {
        world.create::<M::Arch>(M::mk(v, x))
    };
    let post: Model<N> = read::<M, N>(&mut world);
    assert_created::<M, N, N>(&m, &post, e.into_any().raw(), v, x);
    // arbitrary (live or stale) handle against the post-state
    let (key, ver) = any_issued_like::<N>();
    probe_entity::<M, N>(&mut world, &post, key, ver, paths);
    cover!(N < 3 || (m.len > 0 && m.len + 1 < N), "create into a partly filled archetype");
    cover!(m.len + 1 == N, "create fills the archetype");
    cover!(post.lookup(M::ID, key, ver).is_none() && (key >> 8) as usize == (e.into_any().raw().0 >> 8) as usize && (key & 0xff) as u8 == M::ID, "stale handle of the reused position probed");
    std::mem::forget(world);
}

/// Creation with growth (len == capacity == N; K = min((N+1)*2, 2^24)).
pub fn step_create_grow<M: MArch, const N: usize, const K: usize>(paths: u8) {
    let m: Model<N> = Model::any_inv();
    sym::assume(m.len == N);
    let mut world = load::<M, N>(&m);
    let v = sym::any_u8();
    let x = sym::any_u32();
    let e = world.create::<M::Arch>(M::mk(v, x));
    let post: Model<K> = read::<M, K>(&mut world);
    assert_created::<M, N, K>(&m, &post, e.into_any().raw(), v, x);
    let (key, ver) = any_issued_like::<K>();
    probe_entity::<M, K>(&mut world, &post, key, ver, paths);
    cover!(post.lookup(M::ID, key, ver).is_some(), "live handle probed after growth");
    std::mem::forget(world);
}

/// Destruction by key kind from an arbitrary Inv state with an arbitrary handle.
/// kind: 0 Entity, 1 EntityAny (archetype level); 2 Entity, 3 EntityAny (world level).
pub fn step_destroy<M: MArch, const N: usize>(kind: u8, paths: u8) {
    let m: Model<N> = Model::any_inv();
    assume_no_overflow(&m);
    let mut world = load::<M, N>(&m);
    let (key, ver) = any_issued_like::<N>();
    sym::assume(ver != 0);
    sym::assume((key & 0xff) as u8 == M::ID);
    let any = EntityAny::from_raw((key, ver)).ok().unwrap();
    let typed: Entity<M::Arch> = any.try_into().ok().unwrap();
    let exp = m.lookup(M::ID, key, ver);
    let got: Option<Option<(u8, u32, bool)>> = match kind {
        0 => M::arch_mut(&mut world).destroy(typed).map(|c| Some(M::un(c))),
        1 => M::arch_mut(&mut world).destroy(any).map(|c| Some(M::un(c))),
        2 => world.destroy(typed).map(|c| Some(M::un(c))),
        _ => world.destroy(any).map(|_| None),
    };
    assert!(got.is_some() == exp.is_some(), "destroy accepted/rejected against the model");
    let post: Model<N> = read::<M, N>(&mut world);
    match exp {
        None => assert_unchanged::<M, N>(&m, &post),
        Some(d) => {
            assert_destroyed::<M, N>(&m, &post, d);
            if let Some(Some((v, x, ok))) = got {
                assert!(v == m.val[d] && ok && (x ^ m.aux[d]) & M::AUX_MASK == 0, "destroy returned another entity's components");
            }
            // the destroyed handle itself, through every path
            probe_entity::<M, N>(&mut world, &post, key, ver, paths);
        }
    }
    // arbitrary other handle (live or stale) against the post-state
    let (key2, ver2) = any_issued_like::<N>();
    probe_entity::<M, N>(&mut world, &post, key2, ver2, paths);
    cover!(N < 2 || (exp.is_some() && exp.unwrap() + 1 < m.len), "destroyed a non-last entity (swap)");
    cover!(exp.is_some() && exp.unwrap() + 1 == m.len, "destroyed the last dense entity");
    cover!(exp.is_none() && m.slot_live((key >> 8) as usize), "stale generation on a live position");
    cover!(exp.is_none() && ((key >> 8) as usize) < N && !m.slot_live((key >> 8) as usize) && m.slot_ver[(key >> 8) as usize] == ver, "free position with matching generation");
    cover!(post.lookup(M::ID, key2, ver2).is_some(), "surviving handle probed");
    std::mem::forget(world);
}

/// Destruction by a direct key from an arbitrary Inv state with an arbitrary direct handle.
/// kind: 0 EntityDirect, 1 EntityDirectAny (archetype level); 2, 3 (world level).
pub fn step_destroy_direct<M: MArch, const N: usize>(kind: u8, paths: u8) {
    let m: Model<N> = Model::any_inv();
    assume_no_overflow(&m);
    let mut world = load::<M, N>(&m);
    let (idx, ver) = any_direct_like::<N>(&m);
    let d = direct_of::<M>(idx, ver);
    let da: EntityDirectAny = d.into();
    let exp = m.lookup_direct(M::ID, ((idx as u32) << 8) | M::ID as u32, ver);
    let got: Option<Option<(u8, u32, bool)>> = match kind {
        0 => M::arch_mut(&mut world).destroy(d).map(|c| Some(M::un(c))),
        1 => M::arch_mut(&mut world).destroy(da).map(|c| Some(M::un(c))),
        2 => world.destroy(d).map(|c| Some(M::un(c))),
        _ => world.destroy(da).map(|_| None),
    };
    assert!(got.is_some() == exp.is_some(), "destroy(direct) accepted/rejected against the model");
    let post: Model<N> = read::<M, N>(&mut world);
    match exp {
        None => assert_unchanged::<M, N>(&m, &post),
        Some(i) => {
            assert_destroyed::<M, N>(&m, &post, i);
            if let Some(Some((v, x, ok))) = got {
                assert!(v == m.val[i] && ok && (x ^ m.aux[i]) & M::AUX_MASK == 0, "destroy(direct) returned another entity's components");
            }
            // the entity handle of the destroyed entity is dead through every path
            let (k0, g0) = m.handle_raw(M::ID, i);
            probe_entity::<M, N>(&mut world, &post, k0, g0, paths);
        }
    }
    let (key2, ver2) = any_issued_like::<N>();
    probe_entity::<M, N>(&mut world, &post, key2, ver2, paths);
    cover!(N < 2 || (exp.is_some() && exp.unwrap() + 1 < m.len), "destroyed a non-last entity by direct key");
    cover!(exp.is_none() && idx < m.len, "stale direct version");
    std::mem::forget(world);
}

// ---------------------------------------------------------------------------------------------
// instantiations

harness! { fn c01_base_foo_0() unwind(2) { base::<w1::Foo, 0>() } }
harness! { fn c01_base_foo_1() unwind(3) { base::<w1::Foo, 1>() } }
harness! { fn c01_base_foo_2() unwind(4) { base::<w1::Foo, 2>() } }
harness! { fn c01_base_foo_3() unwind(5) { base::<w1::Foo, 3>() } }
harness! { fn c01_base_tri_2() unwind(4) { base::<w3::Tri, 2>() } }

harness! { fn c01_create_foo_1() unwind(3) { step_create::<w1::Foo, 1>(false, P_ALL) } }
harness! { fn c01_create_foo_2() unwind(4) { step_create::<w1::Foo, 2>(false, P_ALL) } }
harness! { fn c01_create_foo_3() unwind(5) { step_create::<w1::Foo, 3>(false, P_ALL) } }
harness! { fn c01_create_foo_4() unwind(6) { step_create::<w1::Foo, 4>(false, P_ARCH) } }
harness! { fn c01_create_within_foo_3() unwind(5) { step_create::<w1::Foo, 3>(true, P_ARCH | P_WORLD) } }
harness! { fn c01_create_tri_3() unwind(5) { step_create::<w3::Tri, 3>(false, P_ARCH | P_QUERY) } }

harness! { fn c01_grow_foo_0() unwind(4) { step_create_grow::<w1::Foo, 0, 2>(P_ALL) } }
harness! { fn c01_grow_foo_1() unwind(6) { step_create_grow::<w1::Foo, 1, 4>(P_ALL) } }
harness! { fn c01_grow_foo_2() unwind(8) { step_create_grow::<w1::Foo, 2, 6>(P_ARCH | P_QUERY) } }
harness! { fn c01_grow_foo_3() unwind(10) { step_create_grow::<w1::Foo, 3, 8>(P_ARCH) } }
harness! { fn c01_grow_tri_1() unwind(6) { step_create_grow::<w3::Tri, 1, 4>(P_ARCH | P_WORLD) } }

harness! { fn c01_destroy_typed_foo_1() unwind(3) { step_destroy::<w1::Foo, 1>(0, P_ALL) } }
harness! { fn c01_destroy_typed_foo_2() unwind(4) { step_destroy::<w1::Foo, 2>(0, P_ALL) } }
harness! { fn c01_destroy_typed_foo_3() unwind(5) { step_destroy::<w1::Foo, 3>(0, P_ARCH) } }
harness! { fn c01_destroy_any_foo_3() unwind(5) { step_destroy::<w1::Foo, 3>(1, P_QUERY) } }
harness! { fn c01_destroy_wtyped_foo_3() unwind(5) { step_destroy::<w1::Foo, 3>(2, P_WORLD) } }
harness! { fn c01_destroy_wany_foo_3() unwind(5) { step_destroy::<w1::Foo, 3>(3, P_ARCH) } }
harness! { fn c01_destroy_typed_foo_4() unwind(6) { step_destroy::<w1::Foo, 4>(0, P_ARCH) } }
harness! { fn c01_destroy_any_tri_3() unwind(5) { step_destroy::<w3::Tri, 3>(1, P_ARCH) } }

harness! { fn c01_destroy_direct_foo_3() unwind(5) { step_destroy_direct::<w1::Foo, 3>(0, P_ARCH) } }
harness! { fn c01_destroy_directany_foo_3() unwind(5) { step_destroy_direct::<w1::Foo, 3>(1, P_WORLD) } }
harness! { fn c01_destroy_wdirect_foo_3() unwind(5) { step_destroy_direct::<w1::Foo, 3>(2, P_QUERY) } }
harness! { fn c01_destroy_wdirectany_foo_2() unwind(4) { step_destroy_direct::<w1::Foo, 2>(3, P_ALL) } }

/// Two populated archetypes of one world (arbitrary Inv states): an operation on one of them
/// leaves the other untouched, and a handle of either archetype presented at WORLD level is
/// routed to its own archetype (generated dispatch) and resolves per that archetype's model.
pub fn two_archetypes<const N1: usize, const N2: usize>(op: u8) {
    use w1::*;
    let mf: Model<N1> = Model::any_inv();
    let mb: Model<N2> = Model::any_inv();
    assume_no_overflow(&mf);
    assume_no_overflow(&mb);
    let mut world = W1::both(N1, N2);
    load_into::<Foo, N1>(&mut world, &mf);
    load_into::<Bar, N2>(&mut world, &mb);
    // an arbitrary issued-like handle of EITHER archetype
    let key = sym::any_u32();
    let ver = sym::any_u32();
    sym::assume(ver != 0);
    let id = (key & 0xff) as u8;
    sym::assume(id == Foo::ID || id == Bar::ID);
    sym::assume(((key >> 8) as usize) < if id == Foo::ID { N1 } else { N2 });
    let any = EntityAny::from_raw((key, ver)).ok().unwrap();
    let exp_f = mf.lookup(Foo::ID, key, ver);
    let exp_b = mb.lookup(Bar::ID, key, ver);
    match op {
        0 => {
            // world-level dynamic lookups
            assert!(world.contains(any) == (exp_f.is_some() || exp_b.is_some()), "World::contains routed a handle to the wrong archetype");
            let got = ecs_find!(world, any, |e: &EntityAny, c: &CA| (e.raw(), c.0));
            let want = match (exp_f, exp_b) {
                (Some(d), _) => Some(((key, ver), mf.val[d])),
                (_, Some(d)) => Some(((key, ver), mb.val[d])),
                _ => None,
            };
            assert!(got == want, "ecs_find! over a shared component reached another archetype's entity");
        }
        1 => {
            // world-level dynamic destroy: only the handle's own archetype changes
            let hit = world.destroy(any).is_some();
            assert!(hit == (exp_f.is_some() || exp_b.is_some()));
            let pf: Model<N1> = read::<Foo, N1>(&mut world);
            let pb: Model<N2> = read::<Bar, N2>(&mut world);
            match (exp_f, exp_b) {
                (Some(d), _) => {
                    assert_destroyed::<Foo, N1>(&mf, &pf, d);
                    assert_unchanged::<Bar, N2>(&mb, &pb);
                }
                (_, Some(d)) => {
                    assert_destroyed::<Bar, N2>(&mb, &pb, d);
                    assert_unchanged::<Foo, N1>(&mf, &pf);
                }
                _ => {
                    assert_unchanged::<Foo, N1>(&mf, &pf);
                    assert_unchanged::<Bar, N2>(&mb, &pb);
                }
            }
        }
        _ => {
            // creation in one archetype leaves the other untouched and the handle differs
            sym::assume(mf.len < N1);
            let e = world.create::<ArchFoo>((CA(sym::any_u8()),));
            let pb: Model<N2> = read::<Bar, N2>(&mut world);
            assert_unchanged::<Bar, N2>(&mb, &pb);
            assert!(!world.arch_bar.contains(e.into_any()), "a Foo handle resolves in Bar");
            // (the arbitrary handle may coincide with the handle just issued: a free position's current
            // generation was never issued before, see H1; that case is the new entity itself)
            if any != e.into_any() {
                assert!(world.contains(any) == (exp_f.is_some() || exp_b.is_some()), "creation changed what an existing handle resolves to");
            }
        }
    }
    cover!(exp_f.is_some(), "live handle of the first archetype");
    cover!(exp_b.is_some(), "live handle of the second archetype");
    cover!(exp_f.is_none() && exp_b.is_none() && id == Bar::ID, "stale handle of the second archetype");
    std::mem::forget(world);
}

harness! { fn c01_two_archetypes_lookup_2_2() unwind(4) { two_archetypes::<2, 2>(0) } }
harness! { fn c01_two_archetypes_destroy_2_2() unwind(4) { two_archetypes::<2, 2>(1) } }
harness! { fn c01_two_archetypes_create_2_2() unwind(4) { two_archetypes::<2, 2>(2) } }
harness! { fn c01_two_archetypes_destroy_3_2() unwind(5) { two_archetypes::<3, 2>(1) } }
harness! { fn c01_destroy_typed_foo_5() unwind(7) { step_destroy::<w1::Foo, 5>(0, P_ARCH) } }
harness! { fn c01_create_foo_5() unwind(7) { step_create::<w1::Foo, 5>(false, P_ARCH) } }
