//! C19 — extra harnesses that only exist under a feature: a 17-column archetype (Storage17)
//! under `32_components` (harness-crate feature `c32`). The rest of C19 re-runs core harnesses
//! of the other modules under each feature set x debug-assertion setting (see registry).

use crate::c01::{step_create_grow, step_destroy};
use crate::harness;
use gecs::prelude::*;

#[cfg(feature = "c32")]
pub mod w17 {
    use gecs::prelude::*;
    macro_rules! comps { ($($n:ident),*) => { $( #[derive(Clone, Copy, PartialEq, Debug)] pub struct $n(pub u8); )* } }
    comps!(D0, D1, D2, D3, D4, D5, D6, D7, D8, D9, D10, D11, D12, D13, D14, D15, D16);

    ecs_world! {
        ecs_name!(W17);
        #[archetype_id(17)]
        ecs_archetype!(ArchWide17, D0, D1, D2, D3, D4, D5, D6, D7, D8, D9, D10, D11, D12, D13, D14, D15, D16);
    }

    crate::model_arch!(
        Wide17, W17, |cap| W17::with_capacity(W17Capacity { arch_wide_17: cap }),
        ArchWide17, arch_wide_17, 17, 17, 0xff,
        mk = |v, x| ArchWide17Components {
            d_0: D0(v), d_1: D1(v ^ 1), d_2: D2(v ^ 2), d_3: D3(v ^ 3), d_4: D4(v ^ 4), d_5: D5(v ^ 5), d_6: D6(v ^ 6),
            d_7: D7(v ^ 7), d_8: D8(v ^ 8), d_9: D9(v ^ 9), d_10: D10(v ^ 10), d_11: D11(v ^ 11), d_12: D12(v ^ 12),
            d_13: D13(v ^ 13), d_14: D14(v ^ 14), d_15: D15(v ^ 15), d_16: D16(x as u8),
        },
        un = |c| {
            let v = c.d_0.0;
            let ok = c.d_1.0 == v ^ 1 && c.d_2.0 == v ^ 2 && c.d_3.0 == v ^ 3 && c.d_4.0 == v ^ 4 && c.d_5.0 == v ^ 5
                && c.d_6.0 == v ^ 6 && c.d_7.0 == v ^ 7 && c.d_8.0 == v ^ 8 && c.d_9.0 == v ^ 9 && c.d_10.0 == v ^ 10
                && c.d_11.0 == v ^ 11 && c.d_12.0 == v ^ 12 && c.d_13.0 == v ^ 13 && c.d_14.0 == v ^ 14 && c.d_15.0 == v ^ 15;
            (v, c.d_16.0 as u32, ok)
        },
        get = |a, i| {
            let v = a.get_slice::<D0>()[i].0;
            let ok = a.get_slice::<D1>()[i].0 == v ^ 1 && a.get_slice::<D2>()[i].0 == v ^ 2 && a.get_slice::<D3>()[i].0 == v ^ 3
                && a.get_slice::<D4>()[i].0 == v ^ 4 && a.get_slice::<D5>()[i].0 == v ^ 5 && a.get_slice::<D6>()[i].0 == v ^ 6
                && a.get_slice::<D7>()[i].0 == v ^ 7 && a.get_slice::<D8>()[i].0 == v ^ 8 && a.get_slice::<D9>()[i].0 == v ^ 9
                && a.get_slice::<D10>()[i].0 == v ^ 10 && a.get_slice::<D11>()[i].0 == v ^ 11 && a.get_slice::<D12>()[i].0 == v ^ 12
                && a.get_slice::<D13>()[i].0 == v ^ 13 && a.get_slice::<D14>()[i].0 == v ^ 14 && a.get_slice::<D15>()[i].0 == v ^ 15;
            (v, a.get_slice::<D16>()[i].0 as u32, ok)
        },
        first = D0, 1, |c| c.0
    );
}

harness! { #[cfg(feature = "c32")] fn c19_wide17_destroy_2() unwind(4) { step_destroy::<w17::Wide17, 2>(3, 0) } }
harness! { #[cfg(feature = "c32")] fn c19_wide17_grow_1() unwind(6) { step_create_grow::<w17::Wide17, 1, 4>(0) } }
