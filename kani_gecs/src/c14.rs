//! C14 (E1 part) — the GENERATED Select* tables and the handle conversions over symbolic
//! handles. (The conversions for a symbolic archetype id are decided by E2 on the MIR.)

use crate::model::*;
use crate::steps::*;
use crate::sym;
use crate::worlds::w3::*;
use crate::{cover, harness};
use gecs::prelude::*;
use std::hash::{Hash, Hasher};

/// Records what a handle feeds into a hasher.
#[derive(Default)]
struct Rec {
    words: [u64; 4],
    n: usize,
    bytes: usize,
}
impl Hasher for Rec {
    fn finish(&self) -> u64 {
        self.words[0]
    }
    fn write(&mut self, b: &[u8]) {
        self.bytes += b.len();
    }
    fn write_u64(&mut self, v: u64) {
        if self.n < 4 {
            self.words[self.n] = v;
        }
        self.n += 1;
    }
}
fn fed<T: Hash>(t: &T) -> (u64, usize, usize) {
    let mut r = Rec::default();
    t.hash(&mut r);
    (r.words[0], r.n, r.bytes)
}

/// Entity handles: every conversion over an arbitrary 64-bit handle; ids 3 and 254 declared.
pub fn entity_conversions() {
    let key = sym::any_u32();
    let ver = sym::any_u32();
    let id = (key & 0xff) as u8;
    let r = EntityAny::from_raw((key, ver));
    assert!(r.is_ok() == (ver != 0), "from_raw must reject exactly a zero generation");
    if ver == 0 {
        return;
    }
    let h = r.ok().unwrap();
    assert!(h.raw() == (key, ver), "from_raw(raw) is not the identity");
    assert!(EntityAny::from_raw(h.raw()).ok().unwrap() == h, "from_raw(raw(h)) != h");
    assert!(h.archetype_id() == id, "archetype_id() is not the id packed in the handle");
    assert!(h.into_any() == h);
    // typed conversions
    let t: Result<Entity<ArchTri>, _> = h.try_into();
    assert!(t.is_ok() == (id == 3), "TryFrom<EntityAny> for Entity<ArchTri>");
    let o: Result<Entity<ArchOther>, _> = Entity::<ArchOther>::try_from(h);
    assert!(o.is_ok() == (id == 254), "TryFrom<EntityAny> for Entity<ArchOther>");
    if let Ok(t) = t {
        assert!(t.into_any() == h && EntityAny::from(t) == h && t.into_any().raw() == (key, ver), "into_any(try_from(h)) != h");
        assert!(t.archetype_id() == 3 && Entity::<ArchTri>::from_any(h) == t);
        let r: &EntityAny = (&t).into();
        assert!(r.raw() == (key, ver), "&Entity<A> -> &EntityAny does not read back the same bits");
        let mut t2 = t;
        let r2: &mut EntityAny = (&mut t2).into();
        assert!(r2.raw() == (key, ver));
        assert!(fed(&t) == fed(&h), "typed and dynamic copies of one handle hash differently");
    }
    // generated tables
    match SelectEntity::try_from(h) {
        Ok(SelectEntity::ArchTri(e)) => assert!(id == 3 && e.into_any() == h, "SelectEntity::ArchTri for another id / other payload"),
        Ok(SelectEntity::ArchOther(e)) => assert!(id == 254 && e.into_any() == h, "SelectEntity::ArchOther for another id / other payload"),
        Err(_) => assert!(id != 3 && id != 254, "SelectEntity rejected a declared archetype id"),
    }
    match SelectArchetype::try_from(h) {
        Ok(s) => assert!(s.archetype_id() == id && (id == 3 || id == 254), "SelectArchetype reports another id"),
        Err(_) => assert!(id != 3 && id != 254, "SelectArchetype rejected a declared archetype id"),
    }
    match SelectArchetype::try_from(id) {
        Ok(SelectArchetype::ArchTri) => assert!(id == 3),
        Ok(SelectArchetype::ArchOther) => assert!(id == 254),
        Err(_) => assert!(id != 3 && id != 254),
    }
    match __W3SelectTotal::try_from(h) {
        Ok(__W3SelectTotal::ArchTri(e)) => assert!(id == 3 && e.into_any() == h),
        Ok(__W3SelectTotal::ArchOther(e)) => assert!(id == 254 && e.into_any() == h),
        Ok(_) => panic!("entity handle selected a direct variant"),
        Err(_) => assert!(id != 3 && id != 254),
    }
    // Eq / Hash against a second arbitrary handle
    let key2 = sym::any_u32();
    let ver2 = sym::any_u32();
    sym::assume(ver2 != 0);
    let h2 = EntityAny::from_raw((key2, ver2)).ok().unwrap();
    assert!((h == h2) == (key == key2 && ver == ver2), "Eq is not bitwise on (key, generation)");
    let (w1, n1, b1) = fed(&h);
    let (w2, n2, b2) = fed(&h2);
    assert!(n1 == 1 && n2 == 1 && b1 == 0 && b2 == 0, "handle hashing is not a single u64");
    assert!((w1 == w2) == (h == h2), "hash input is not an injective function of (key, generation)");
    if id == 3 && (key2 & 0xff) == 3 {
        let t1: Entity<ArchTri> = h.try_into().ok().unwrap();
        let t2: Entity<ArchTri> = h2.try_into().ok().unwrap();
        assert!((t1 == t2) == (h == h2), "Eq on typed handles disagrees with the dynamic copies");
    }
    cover!(id == 3 && h != h2, "declared id, two different handles");
    cover!(id == 254, "second declared id");
    cover!(id != 3 && id != 254, "undeclared id");
    cover!(h == h2, "equal handles");
}

/// Direct handles (constructible ids only: the two declared archetypes).
pub fn direct_conversions() {
    let idx = sym::any_usize();
    let ver = sym::any_u32();
    sym::assume(idx < MAX_CAP && ver != 0);
    let other = sym::any_bool();
    let da: EntityDirectAny = if other { direct_of::<Other>(idx, ver).into() } else { direct_of::<Tri>(idx, ver).into_any() };
    let id = if other { 254 } else { 3 };
    assert!(da.archetype_id() == id && da.into_any() == da);
    let t: Result<EntityDirect<ArchTri>, _> = da.try_into();
    assert!(t.is_ok() == !other, "TryFrom<EntityDirectAny> for EntityDirect<ArchTri>");
    if let Ok(t) = t {
        assert!(t.into_any() == da && EntityDirectAny::from(t) == da && t.archetype_id() == 3 && EntityDirect::<ArchTri>::from_any(da) == t);
        assert!(t == direct_of::<Tri>(idx, ver), "typed round trip changed the handle");
        let r: &EntityDirectAny = (&t).into();
        assert!(*r == da, "&EntityDirect<A> -> &EntityDirectAny does not read back the same bits");
        assert!(fed(&t) == fed(&da));
    }
    match SelectEntityDirect::try_from(da) {
        Ok(SelectEntityDirect::ArchTri(e)) => assert!(!other && e.into_any() == da),
        Ok(SelectEntityDirect::ArchOther(e)) => assert!(other && e.into_any() == da),
        Err(_) => panic!("SelectEntityDirect rejected a declared archetype id"),
    }
    match __W3SelectTotal::try_from(da) {
        Ok(__W3SelectTotal::ArchTriDirect(e)) => assert!(!other && e.into_any() == da),
        Ok(__W3SelectTotal::ArchOtherDirect(e)) => assert!(other && e.into_any() == da),
        _ => panic!("direct handle selected a wrong variant"),
    }
    let idx2 = sym::any_usize();
    let ver2 = sym::any_u32();
    sym::assume(idx2 < MAX_CAP && ver2 != 0);
    let other2 = sym::any_bool();
    let db: EntityDirectAny = if other2 { direct_of::<Other>(idx2, ver2).into() } else { direct_of::<Tri>(idx2, ver2).into() };
    let same = idx == idx2 && ver == ver2 && other == other2;
    assert!((da == db) == same, "Eq on direct handles is not bitwise");
    assert!((fed(&da).0 == fed(&db).0) == same, "hash input of direct handles is not injective");
    // typed direct handles: Eq is bitwise on (index, version) too, and consistent with the dynamic copies
    if !other && !other2 {
        let ta = direct_of::<Tri>(idx, ver);
        let tb = direct_of::<Tri>(idx2, ver2);
        assert!((ta == tb) == (idx == idx2 && ver == ver2), "Eq on typed direct handles is not bitwise on (index, version)");
        assert!((ta == tb) == (ta.into_any() == tb.into_any()), "typed and dynamic direct handles disagree on equality");
        assert!((ta == tb) == (fed(&ta).0 == fed(&tb).0), "equal typed direct handles hash differently (or unequal ones feed the same word)");
    }
    cover!(same, "equal direct handles");
    cover!(!other && !other2 && idx == idx2 && ver != ver2, "same dense index at different archetype versions");
    cover!(idx == idx2 && ver == ver2 && other != other2, "same index and version in two archetypes");
}

/// From a created handle: archetype_id() equals the creating archetype's ARCHETYPE_ID.
pub fn created_ids() {
    let mt: Model<2> = Model::any_inv();
    let mo: Model<2> = Model::any_inv();
    sym::assume(mt.len < 2 && mo.len < 2);
    let mut world = W3::both(2, 2);
    load_into::<Tri, 2>(&mut world, &mt);
    load_into::<Other, 2>(&mut world, &mo);
    let a = world.create::<ArchTri>((P(1), Pad(2, 3), Zs));
    let b = world.arch_other.create((Q(1), P(2)));
    assert!(a.archetype_id() == ArchTri::ARCHETYPE_ID && a.into_any().archetype_id() == 3);
    assert!(b.archetype_id() == ArchOther::ARCHETYPE_ID && b.into_any().archetype_id() == 254);
    assert!(SelectArchetype::from(a).archetype_id() == 3 && SelectArchetype::from(b).archetype_id() == 254);
    match SelectEntity::from(a) {
        SelectEntity::ArchTri(e) => assert!(e == a),
        _ => panic!("SelectEntity::from picked another archetype"),
    }
    let da = world.to_direct(a).unwrap();
    assert!(da.archetype_id() == 3 && da.into_any().archetype_id() == 3);
    match SelectEntityDirect::from(da) {
        SelectEntityDirect::ArchTri(e) => assert!(e == da),
        _ => panic!("SelectEntityDirect::from picked another archetype"),
    }
    cover!(true, "created in both archetypes");
    std::mem::forget(world);
}

harness! { fn c14_entity_conversions() unwind(10) { entity_conversions() } }
harness! { fn c14_direct_conversions() unwind(10) { direct_conversions() } }
/// Generated tables of a world whose explicit ids DESCEND in declaration order (7, 0, 1):
/// every table maps a handle to the variant of its own archetype, for entity and direct handles,
/// and the world-level calls taking dynamic keys are routed accordingly.
pub fn tables_descending_ids() {
    use crate::c15::wi::zero::*;
    use crate::c15::wi::{X, Y, Z};
    let mut world = WZ::new();
    let e7 = world.create::<B7>((X(1), Y(2), Z(3)));
    let e0 = world.create::<B0>((Z(4), Y(5)));
    let e1 = world.create::<B1>((X(6),));
    let which = sym::any_u8();
    sym::assume(which < 3);
    let any: EntityAny = match which { 0 => e7.into_any(), 1 => e0.into_any(), _ => e1.into_any() };
    let da: EntityDirectAny = world.to_direct(any).unwrap();
    let want_id = match which { 0 => 7, 1 => 0, _ => 1 };
    assert!(any.archetype_id() == want_id && da.archetype_id() == want_id);
    match SelectEntity::try_from(any) {
        Ok(SelectEntity::B7(x)) => assert!(which == 0 && x == e7),
        Ok(SelectEntity::B0(x)) => assert!(which == 1 && x == e0),
        Ok(SelectEntity::B1(x)) => assert!(which == 2 && x == e1),
        Err(_) => panic!("SelectEntity rejected a declared id"),
    }
    match SelectEntityDirect::try_from(da) {
        Ok(SelectEntityDirect::B7(x)) => assert!(which == 0 && x.into_any() == da, "SelectEntityDirect maps a direct handle to another archetype's variant"),
        Ok(SelectEntityDirect::B0(x)) => assert!(which == 1 && x.into_any() == da, "SelectEntityDirect maps a direct handle to another archetype's variant"),
        Ok(SelectEntityDirect::B1(x)) => assert!(which == 2 && x.into_any() == da, "SelectEntityDirect maps a direct handle to another archetype's variant"),
        Err(_) => panic!("SelectEntityDirect rejected a declared id"),
    }
    match __WZSelectTotal::try_from(da) {
        Ok(__WZSelectTotal::B7Direct(_)) => assert!(which == 0),
        Ok(__WZSelectTotal::B0Direct(_)) => assert!(which == 1),
        Ok(__WZSelectTotal::B1Direct(_)) => assert!(which == 2),
        _ => panic!("__SelectTotal mapped a direct handle to a wrong variant"),
    }
    assert!(SelectArchetype::try_from(any).ok().unwrap().archetype_id() == want_id);
    // world-level calls with the dynamic direct key act on the handle's own archetype
    assert!(world.contains(da) && world.contains(any));
    assert!(world.destroy(da).is_some());
    assert!(world.b_7.len() == (which != 0) as usize && world.b_0.len() == (which != 1) as usize && world.b_1.len() == (which != 2) as usize, "World::destroy(EntityDirectAny) destroyed an entity of another archetype");
    cover!(which == 0, "the first-declared archetype carries the HIGHEST id");
    std::mem::forget(world);
}

harness! { fn c14_tables_descending_ids() unwind(6) { tables_descending_ids() } }
harness! { fn c14_created_ids() unwind(10) { created_ids() } }
