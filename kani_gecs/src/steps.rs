//! Generic building blocks: lookup probes through every access path and the transition
//! relations of create / destroy, phrased on the ghost model.

use crate::model::*;
use crate::sym;
use gecs::entity::__internal::new_entity_direct;
use gecs::prelude::*;
use gecs::version::ArchetypeVersion;

/// Which groups of lookup paths a probe exercises (kept selectable so one harness stays
/// within a solver budget; the union over a property's harnesses is all of them).
pub const P_ARCH: u8 = 1; // archetype level: contains / resolve / to_direct / view / borrow
pub const P_WORLD: u8 = 2; // world level: contains / to_direct / view / borrow
pub const P_QUERY: u8 = 4; // ecs_find! / ecs_find_borrow!
pub const P_ALL: u8 = 7;

/// Builds an arbitrary archetype version from a nonzero raw value.
pub fn arch_version(v: u32) -> ArchetypeVersion {
    assert!(v != 0);
    // ArchetypeVersion is repr(transparent) over NonZeroU32.
    unsafe { std::mem::transmute::<u32, ArchetypeVersion>(v) }
}

/// The direct handle `(index, version)` of archetype `M`.
pub fn direct_of<M: MArch>(index: usize, version: u32) -> EntityDirect<M::Arch> {
    new_entity_direct::<M::Arch>(index, arch_version(version))
}

/// Checks that an accepted lookup that reported dense index `got` agrees with the model:
/// expected index `exp`, and the handle stored there is bit-identical to `(key, ver)`.
fn check_index<M: MArch, const N: usize>(
    a: &M::Arch,
    exp: Option<usize>,
    got: Option<usize>,
    raw: Option<(u32, u32)>,
) {
    assert!(got.is_some() == exp.is_some(), "lookup accepted/rejected against the model");
    if let (Some(e), Some(g)) = (exp, got) {
        assert!(e == g, "lookup resolved to another dense index");
        assert!(g < a.len(), "resolved index out of range");
        if let Some(raw) = raw {
            assert!(a.entities()[g].into_any().raw() == raw, "resolved entity is not bit-identical to the handle");
        }
    }
}

/// All non-mutating lookup paths, for the raw entity handle `(key, ver)`, must agree with
/// model `m` (the model of the world's current state).
pub fn probe_entity<M: MArch, const N: usize>(
    world: &mut M::World,
    m: &Model<N>,
    key: u32,
    ver: u32,
    paths: u8,
) {
    let any = match EntityAny::from_raw((key, ver)) {
        Ok(h) => h,
        Err(_) => {
            assert!(ver == 0, "from_raw rejected a nonzero generation");
            return;
        }
    };
    assert!(ver != 0, "from_raw accepted generation 0");
    let exp = m.lookup(M::ID, key, ver);
    let raw = Some((key, ver));
    let id_matches = (key & 0xff) as u8 == M::ID;

    if paths & P_ARCH != 0 {
        let a = M::arch_mut(world);
        assert!(a.contains(any) == exp.is_some(), "Archetype::contains(EntityAny)");
        check_index::<M, N>(a, exp, a.resolve(any), raw);
        match a.to_direct(any) {
            None => assert!(exp.is_none(), "Archetype::to_direct(EntityAny) rejected a live handle"),
            Some(d) => {
                assert!(exp.is_some(), "Archetype::to_direct(EntityAny) accepted a dead handle");
                let want: EntityDirectAny = direct_of::<M>(exp.unwrap(), m.version).into();
                assert!(d == want, "to_direct returned another (index, version)");
            }
        }
        let vi = a.view(any).map(|v| v.index());
        check_index::<M, N>(a, exp, vi, raw);
        let bi = a.borrow(any).map(|b| (b.index(), b.entity().into_any().raw()));
        check_index::<M, N>(a, exp, bi.map(|x| x.0), raw);
        if let Some((_, r)) = bi {
            assert!(r == (key, ver), "Borrow::entity is not the handle");
        }
        if id_matches {
            let typed: Entity<M::Arch> = any.try_into().ok().unwrap();
            assert!(a.contains(typed) == exp.is_some(), "Archetype::contains(Entity)");
            check_index::<M, N>(a, exp, a.resolve(typed), raw);
            match a.to_direct(typed) {
                None => assert!(exp.is_none(), "Archetype::to_direct(Entity) rejected a live handle"),
                Some(d) => {
                    assert!(exp.is_some(), "Archetype::to_direct(Entity) accepted a dead handle");
                    assert!(d == direct_of::<M>(exp.unwrap(), m.version), "to_direct returned another (index, version)");
                }
            }
            let vi = a.view(typed).map(|v| v.index());
            check_index::<M, N>(a, exp, vi, raw);
            let bi = a.borrow(typed).map(|b| b.index());
            check_index::<M, N>(a, exp, bi, raw);
        } else {
            assert!(Entity::<M::Arch>::try_from(any).is_err(), "try_from accepted a foreign archetype id");
        }
    }

    if paths & P_WORLD != 0 && id_matches {
        let typed: Entity<M::Arch> = any.try_into().ok().unwrap();
        assert!(world.contains(typed) == exp.is_some(), "World::contains(Entity)");
        assert!(world.contains(any) == exp.is_some(), "World::contains(EntityAny)");
        match world.to_direct(typed) {
            None => assert!(exp.is_none(), "World::to_direct(Entity) rejected a live handle"),
            Some(d) => {
                assert!(exp.is_some(), "World::to_direct(Entity) accepted a dead handle");
                assert!(d == direct_of::<M>(exp.unwrap(), m.version), "World::to_direct returned another (index, version)");
            }
        }
        match world.to_direct(any) {
            None => assert!(exp.is_none(), "World::to_direct(EntityAny) rejected a live handle"),
            Some(d) => {
                assert!(exp.is_some(), "World::to_direct(EntityAny) accepted a dead handle");
                let want: EntityDirectAny = direct_of::<M>(exp.unwrap(), m.version).into();
                assert!(d == want, "World::to_direct returned another (index, version)");
            }
        }
        let vi = world.view::<M::Arch, _>(typed).map(|v| v.index());
        assert!(vi == exp, "World::view(Entity)");
        let bi = world.borrow::<M::Arch, _>(typed).map(|b| (b.index(), b.entity().into_any().raw()));
        assert!(bi.map(|x| x.0) == exp, "World::borrow(Entity)");
        if let Some((_, r)) = bi {
            assert!(r == (key, ver), "World::borrow: Borrow::entity is not the handle");
        }
    }

    if paths & P_QUERY != 0 && id_matches {
        let typed: Entity<M::Arch> = any.try_into().ok().unwrap();
        let want = exp.map(|d| ((key, ver), m.val[d]));
        assert!(M::q_find(world, Key::Any(any)) == want, "ecs_find!(EntityAny)");
        assert!(M::q_find(world, Key::Typed(typed)) == want, "ecs_find!(Entity)");
        assert!(M::q_find_borrow(world, Key::Any(any)) == want, "ecs_find_borrow!(EntityAny)");
        assert!(M::q_find_borrow(world, Key::Typed(typed)) == want, "ecs_find_borrow!(Entity)");
    }
}

/// All non-mutating lookup paths for the raw *direct* handle `(index, ver)` of archetype `M`.
pub fn probe_direct<M: MArch, const N: usize>(
    world: &mut M::World,
    m: &Model<N>,
    index: usize,
    ver: u32,
    paths: u8,
) {
    assert!(index < MAX_CAP && ver != 0);
    let d = direct_of::<M>(index, ver);
    let da: EntityDirectAny = d.into();
    let exp = m.lookup_direct(M::ID, ((index as u32) << 8) | M::ID as u32, ver);

    if paths & P_ARCH != 0 {
        let a = M::arch_mut(world);
        assert!(a.contains(d) == exp.is_some(), "Archetype::contains(EntityDirect)");
        assert!(a.contains(da) == exp.is_some(), "Archetype::contains(EntityDirectAny)");
        check_index::<M, N>(a, exp, a.resolve(d), None);
        check_index::<M, N>(a, exp, a.resolve(da), None);
        let vi = a.view(d).map(|v| v.index());
        check_index::<M, N>(a, exp, vi, None);
        let bi = a.borrow(da).map(|b| b.index());
        check_index::<M, N>(a, exp, bi, None);
        let vi = a.view(da).map(|v| v.index());
        check_index::<M, N>(a, exp, vi, None);
        let bi = a.borrow(d).map(|b| b.index());
        check_index::<M, N>(a, exp, bi, None);
        // to_direct on a direct key hands the key back iff it is current ("if the entity exists")
        assert!(a.to_direct(d) == exp.map(|_| d), "Archetype::to_direct(EntityDirect) accepted a stale handle or changed a current one");
        assert!(a.to_direct(da) == exp.map(|_| da), "Archetype::to_direct(EntityDirectAny) accepted a stale handle or changed a current one");
    }
    if paths & P_WORLD != 0 {
        assert!(world.contains(d) == exp.is_some(), "World::contains(EntityDirect)");
        assert!(world.contains(da) == exp.is_some(), "World::contains(EntityDirectAny)");
        assert!(world.to_direct(d) == exp.map(|_| d), "World::to_direct(EntityDirect) accepted a stale handle or changed a current one");
        assert!(world.to_direct(da) == exp.map(|_| da), "World::to_direct(EntityDirectAny) accepted a stale handle or changed a current one");
        let vi = world.view::<M::Arch, _>(d).map(|v| v.index());
        assert!(vi == exp, "World::view(EntityDirect)");
        let bi = world.borrow::<M::Arch, _>(d).map(|b| b.index());
        assert!(bi == exp, "World::borrow(EntityDirect)");
    }
    if paths & P_QUERY != 0 {
        let want = exp.map(|i| (m.handle_raw(M::ID, i), m.val[i]));
        assert!(M::q_find(world, Key::Direct(d)) == want, "ecs_find!(EntityDirect)");
        assert!(M::q_find(world, Key::DirectAny(da)) == want, "ecs_find!(EntityDirectAny)");
        assert!(M::q_find_borrow(world, Key::Direct(d)) == want, "ecs_find_borrow!(EntityDirect)");
        assert!(M::q_find_borrow(world, Key::DirectAny(da)) == want, "ecs_find_borrow!(EntityDirectAny)");
    }
}

/// `post` must equal `pre` in every observable and representational respect (failed operation).
pub fn assert_unchanged<M: MArch, const N: usize>(pre: &Model<N>, post: &Model<N>) {
    assert!(post.version == pre.version && post.len == pre.len && post.free_head == pre.free_head, "failed operation changed version/len/free head");
    let mut i = 0;
    while i < N {
        assert!(post.slot_idx[i] == pre.slot_idx[i] && post.slot_ver[i] == pre.slot_ver[i], "failed operation changed a slot");
        if i < pre.len {
            assert!(post.ent_slot[i] == pre.ent_slot[i] && post.ent_ver[i] == pre.ent_ver[i], "failed operation changed a stored handle");
            assert!(post.val[i] == pre.val[i] && post.ok[i] && (post.aux[i] ^ pre.aux[i]) & M::AUX_MASK == 0, "failed operation changed a component value");
        }
        i += 1;
    }
}

/// Transition relation of a successful creation that did not grow: `post` is `pre` plus one
/// entity `(p, g)` holding `(v, x)`, at a position that was free, with that position's
/// generation; nothing else observable changed.
pub fn assert_created<M: MArch, const N: usize, const K: usize>(
    pre: &Model<N>,
    post: &Model<K>,
    handle: (u32, u32),
    v: u8,
    x: u32,
) {
    assert!(K >= N);
    assert!(post.inv(), "representation invariant broken by create");
    assert!(post.len == pre.len + 1, "len not incremented by create");
    let (key, g) = handle;
    assert!((key & 0xff) as u8 == M::ID, "created handle carries another archetype id");
    let p = (key >> 8) as usize;
    assert!(p < K, "created handle points past capacity");
    if p < N {
        assert!(!pre.slot_live(p), "create reused a live position");
        assert!(g == pre.slot_ver[p], "create changed the generation of the position it reused");
    }
    // the new entity resolves to the last dense cell and holds the given values
    let d = post.lookup(M::ID, key, g);
    assert!(d.is_some(), "freshly created handle does not resolve");
    let d = d.unwrap();
    assert!(post.val[d] == v && post.ok[d] && (post.aux[d] ^ x) & M::AUX_MASK == 0, "created entity holds other values");
    // everything that existed is untouched
    let mut i = 0;
    while i < N {
        if i != p {
            assert!(post.slot_ver[i] == pre.slot_ver[i], "create changed another position's generation");
            assert!(post.slot_live(i) == pre.slot_live(i), "create changed another position's liveness");
        }
        if i < pre.len {
            let (k0, g0) = pre.handle_raw(M::ID, i);
            let j = post.lookup(M::ID, k0, g0);
            assert!(j.is_some(), "create lost an existing entity");
            let j = j.unwrap();
            assert!(post.val[j] == pre.val[i] && post.ok[j] && (post.aux[j] ^ pre.aux[i]) & M::AUX_MASK == 0, "create changed another entity's values");
            if post.version == pre.version {
                assert!(j == i, "create moved an entity without advancing the archetype version");
            }
        }
        i += 1;
    }
    assert!(post.version >= pre.version, "archetype version went backwards");
}

/// Transition relation of a successful destruction of the entity in dense cell `d` of `pre`.
pub fn assert_destroyed<M: MArch, const N: usize>(pre: &Model<N>, post: &Model<N>, d: usize) {
    assert!(post.inv(), "representation invariant broken by destroy");
    assert!(post.len + 1 == pre.len, "len not decremented by destroy");
    let p = pre.ent_slot[d] as usize;
    assert!(!post.slot_live(p), "destroyed position still live");
    #[cfg(not(feature = "wrapping_version"))]
    {
        assert!(post.slot_ver[p] > pre.slot_ver[p], "destroy did not advance the position's generation");
        assert!(post.version > pre.version, "destroy did not advance the archetype version");
    }
    #[cfg(feature = "wrapping_version")]
    {
        assert!(post.slot_ver[p] != pre.slot_ver[p] && post.slot_ver[p] != 0, "destroy did not advance the position's generation");
        assert!(post.version != pre.version && post.version != 0, "destroy did not advance the archetype version");
    }
    let mut i = 0;
    while i < N {
        if i != p {
            assert!(post.slot_ver[i] == pre.slot_ver[i], "destroy changed another position's generation");
            assert!(post.slot_live(i) == pre.slot_live(i), "destroy changed another position's liveness");
        }
        if i < pre.len && i != d {
            let (k0, g0) = pre.handle_raw(M::ID, i);
            let j = post.lookup(M::ID, k0, g0);
            assert!(j.is_some(), "destroy lost another entity");
            let j = j.unwrap();
            assert!(post.val[j] == pre.val[i] && post.ok[j] && (post.aux[j] ^ pre.aux[i]) & M::AUX_MASK == 0, "destroy changed another entity's values");
        }
        i += 1;
    }
}

/// An arbitrary raw entity handle `(key, generation)` such as a copy of any handle this
/// archetype ever issued can be: any generation, any archetype id, position below the current
/// capacity `N` (capacity never shrinks, so every issued handle satisfies this; positions at
/// or beyond capacity belong to forged handles, which C03 covers — with debug assertions on
/// they end in the documented clean panic "invalid entity handle").
pub fn any_issued_like<const N: usize>() -> (u32, u32) {
    let key = sym::any_u32();
    let ver = sym::any_u32();
    sym::assume(((key >> 8) as usize) < N);
    (key, ver)
}

/// An arbitrary raw direct handle `(index, version)` such as this archetype can have issued:
/// if it carries the current version its index is below len (handles with the current version
/// and an index >= len are forged: C03).
pub fn any_direct_like<const N: usize>(m: &Model<N>) -> (usize, u32) {
    let idx = sym::any_usize();
    let ver = sym::any_u32();
    sym::assume(ver != 0 && idx < MAX_CAP);
    sym::assume(ver != m.version || idx < m.len);
    (idx, ver)
}

/// Excludes the generation-overflow pre-states (handled by the C08/C10 harnesses).
pub fn assume_no_overflow<const N: usize>(m: &Model<N>) {
    #[cfg(not(feature = "wrapping_version"))]
    {
        sym::assume(m.version != u32::MAX);
        let mut i = 0;
        while i < N {
            sym::assume(m.slot_ver[i] != u32::MAX);
            i += 1;
        }
    }
}
