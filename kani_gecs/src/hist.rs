//! Bounded public-API histories (DESIGN §1, §4 C01 "hist"): L symbolic operations from
//! `with_capacity(CAP)`, no state-writing hooks. A shadow list of every handle issued so far is
//! probed after every step — the literal quantifier of C01 / C08 / C12 for short histories — and
//! the state the history ends in must satisfy the representation invariant the step harnesses
//! assume (reachable ⊆ Inv: the induction's pre-state is not vacuous on real states).
use crate::model::{self, Model};
use crate::sym;
use crate::{cover, harness};
use crate::worlds::w1::*;
use gecs::prelude::*;

/// `GROW`: plain `create` may be called on a full archetype (capacity grows); otherwise a full
/// archetype is only offered `create_within_capacity`.
pub fn hist<const CAP: usize, const L: usize, const GROW: bool>() {
    let mut world = W1::with_capacity(W1Capacity { arch_foo: CAP, arch_bar: 0 });
    let mut issued: [Option<Entity<ArchFoo>>; L] = [None; L];
    let mut alive = [false; L];
    let mut val = [0u8; L];
    let mut n = 0usize;
    let mut live = 0usize;
    let mut reused = false;
    let mut stale_probe = false;
    let mut step = 0;
    while step < L {
        let op = sym::any_u8();
        sym::assume(op < 3);
        if op < 2 {
            let v = sym::any_u8();
            let cap_now = world.arch_foo.capacity();
            let e = if op == 0 {
                if !GROW {
                    sym::assume(live < CAP);
                }
                Some(world.create::<ArchFoo>((CA(v),)))
            } else {
                match world.arch_foo.create_within_capacity((CA(v),)) {
                    Ok(e) => {
                        assert!(live < cap_now, "create_within_capacity succeeded on a full archetype");
                        assert!(world.arch_foo.capacity() == cap_now, "create_within_capacity changed the capacity");
                        Some(e)
                    }
                    Err(c) => {
                        assert!(live >= cap_now, "create_within_capacity refused although there was room");
                        assert!(c.ca.0 == v, "refused components not handed back");
                        None
                    }
                }
            };
            if let Some(e) = e {
                let mut j = 0;
                while j < L {
                    if j < n {
                        let old = issued[j].unwrap();
                        assert!(old != e, "a handle was issued twice in one history");
                        if old.into_any().raw().0 == e.into_any().raw().0 {
                            reused = true;
                        }
                    }
                    j += 1;
                }
                issued[n] = Some(e);
                alive[n] = true;
                val[n] = v;
                n += 1;
                live += 1;
            }
        } else {
            let k = sym::any_usize();
            sym::assume(k < n);
            let h = issued[k].unwrap();
            let dynamic = sym::any_bool();
            let done = if dynamic {
                world.destroy(h.into_any()).is_some()
            } else {
                match world.destroy(h) {
                    Some(c) => {
                        assert!(c.ca.0 == val[k], "destroy returned another entity's components");
                        true
                    }
                    None => false,
                }
            };
            assert!(done == alive[k], "destroy succeeded iff the entity was alive");
            if alive[k] {
                live -= 1;
            } else {
                stale_probe = true;
            }
            alive[k] = false;
        }
        // every handle issued so far, through one world-level and one archetype-level path
        let mut j = 0;
        while j < L {
            if j < n {
                let h = issued[j].unwrap();
                assert!(world.contains(h) == alive[j], "contains() differs from the history");
                match world.arch_foo.view(h.into_any()) {
                    Some(vw) => {
                        assert!(alive[j], "a destroyed handle resolves");
                        assert!(vw.component::<CA>().0 == val[j], "a live handle reads another entity's value");
                    }
                    None => assert!(!alive[j], "a live handle does not resolve"),
                }
            }
            j += 1;
        }
        assert!(world.arch_foo.len() == live, "len differs from the number of live entities");
        assert!(world.arch_foo.is_empty() == (live == 0));
        step += 1;
    }
    if !GROW {
        // the state a real history ends in is one of the states the step harnesses start from
        let m: Model<CAP> = model::read::<Foo, CAP>(&mut world);
        assert!(m.inv(), "a state reached through the public API violates the representation invariant");
    }
    cover!(reused, "a position was reused within the history");
    cover!(stale_probe, "a destroyed handle was offered to destroy again");
    cover!(live == 0 && n == L / 2, "history ending empty");
    std::mem::forget(world);
}

harness! { fn hist_c2_l3() unwind(5) { hist::<2, 3, false>() } }
// 4 and more operations: CBMC exhausts memory (measured: > 16 GB after 12 min at capacity 1 and 2); growth from capacity 0 likewise.
harness! { fn hist_grow_c1_l3() unwind(6) { hist::<1, 3, true>() } }
