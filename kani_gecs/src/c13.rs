//! C13 — a cloned world is observationally identical and thereafter independent.

use crate::model::*;
use crate::steps::*;
use crate::sym;
use crate::worlds::{w1, w3};
use crate::{cover, harness};
use gecs::prelude::*;

/// clone of an arbitrary Inv state equals it field for field over the WHOLE capacity (slots
/// including free-list links, free head, version, len, handles, values); then one symbolic
/// operation on one side leaves the other side unchanged; the clone can be refilled.
pub fn clone_step<M: MArch, const N: usize>(op: u8, on_clone: bool, paths: u8) {
    let m: Model<N> = Model::any_inv();
    assume_no_overflow(&m);
    let mut world = load::<M, N>(&m);
    let mut c = world.clone();
    assert!(M::arch(&c).len() == m.len && M::arch(&c).capacity() == N, "clone has another len/capacity than the original");
    assert!(M::arch(&world).capacity() == N, "cloning changed the original's capacity");
    let mc: Model<N> = read::<M, N>(&mut c);
    assert_unchanged::<M, N>(&m, &mc);
    assert!(M::arch(&c).len() == m.len && M::arch(&c).capacity() == N, "clone has another len/capacity");
    // the original is untouched by being cloned
    let mw: Model<N> = read::<M, N>(&mut world);
    assert_unchanged::<M, N>(&m, &mw);
    // same handles (direct ones included) resolve to equal values in the clone
    if N > 0 {
        let (key, ver) = any_issued_like::<N>();
        probe_entity::<M, N>(&mut c, &m, key, ver, paths);
        let (idx, dv) = any_direct_like::<N>(&m);
        probe_direct::<M, N>(&mut c, &m, idx, dv, paths & P_ARCH);
    }
    // diverge
    {
        let (a, b) = if on_clone { (&mut c, &mut world) } else { (&mut world, &mut c) };
        match op {
            0 => {
                let _ = a.create::<M::Arch>(M::mk(sym::any_u8(), sym::any_u32()));
            }
            1 => {
                let k = sym::any_usize();
                sym::assume(k < m.len);
                let (k0, g0) = m.handle_raw(M::ID, k);
                assert!(a.destroy(EntityAny::from_raw((k0, g0)).ok().unwrap()).is_some());
            }
            2 => {
                let k = sym::any_usize();
                sym::assume(k < m.len);
                let (k0, g0) = m.handle_raw(M::ID, k);
                let h: Entity<M::Arch> = EntityAny::from_raw((k0, g0)).ok().unwrap().try_into().ok().unwrap();
                let comps = M::arch_mut(a).destroy(h).unwrap();
                std::mem::forget(comps);
                let _ = a.create::<M::Arch>(M::mk(sym::any_u8(), sym::any_u32()));
            }
            _ => {
                // refill the side to capacity
                let mut i = 0;
                while i < N {
                    if M::arch(a).len() < N {
                        match a.create_within_capacity::<M::Arch>(M::mk(i as u8, 7)) {
                            Ok(_) => {}
                            Err(x) => {
                                std::mem::forget(x);
                                panic!("a clone could not be refilled to capacity");
                            }
                        }
                    }
                    i += 1;
                }
                assert!(M::arch(a).len() == N && M::arch(a).capacity() == N);
            }
        }
        let other: Model<N> = read::<M, N>(b);
        assert_unchanged::<M, N>(&m, &other);
    }
    cover!(N < 2 || (m.len == 1 && m.free_head != FREE_END), "clone of a state with free positions");
    cover!(m.len == N, "clone of a full archetype");
    cover!(op == 1 || op == 2 || m.len == 0, "clone of an empty archetype");
    std::mem::forget(world);
    std::mem::forget(c);
}

harness! { fn c13_clone_create_on_clone_foo_3() unwind(10) { clone_step::<w1::Foo, 3>(0, true, P_ARCH) } }
harness! { fn c13_clone_destroy_on_orig_foo_3() unwind(5) { clone_step::<w1::Foo, 3>(1, false, P_WORLD) } }
harness! { fn c13_clone_recycle_on_clone_foo_3() unwind(5) { clone_step::<w1::Foo, 3>(2, true, P_QUERY) } }
harness! { fn c13_clone_refill_clone_foo_3() unwind(5) { clone_step::<w1::Foo, 3>(3, true, 0) } }
harness! { fn c13_clone_refill_orig_foo_2() unwind(4) { clone_step::<w1::Foo, 2>(3, false, P_ALL) } }
harness! { fn c13_clone_destroy_on_clone_tri_3() unwind(5) { clone_step::<w3::Tri, 3>(1, true, P_ARCH) } }
harness! { fn c13_clone_create_on_orig_tri_2() unwind(8) { clone_step::<w3::Tri, 2>(0, false, P_ARCH | P_QUERY) } }
harness! { fn c13_clone_recycle_on_orig_other_2() unwind(4) { clone_step::<w3::Other, 2>(2, false, P_ARCH) } }
harness! { fn c13_clone_foo_0() unwind(4) { clone_step::<w1::Foo, 0>(0, true, 0) } }

/// A world with TWO populated archetypes: each archetype of the clone equals the same archetype of
/// the original (no field mix-up in the generated `Clone for World`), and World::with_capacity
/// hands each archetype its own capacity.
pub fn clone_two_archetypes<const N1: usize, const N2: usize>() {
    use w3::*;
    let mt: Model<N1> = Model::any_inv();
    let mo: Model<N2> = Model::any_inv();
    let mut world = W3::both(N1, N2);
    assert!(world.arch_tri.capacity() == N1 && world.arch_other.capacity() == N2, "World::with_capacity handed an archetype another archetype's capacity");
    load_into::<Tri, N1>(&mut world, &mt);
    load_into::<Other, N2>(&mut world, &mo);
    let mut c = world.clone();
    assert!(c.arch_tri.len() == mt.len && c.arch_other.len() == mo.len && c.arch_tri.capacity() == N1 && c.arch_other.capacity() == N2, "clone mixed up the archetypes of the world");
    let ct: Model<N1> = read::<Tri, N1>(&mut c);
    let co: Model<N2> = read::<Other, N2>(&mut c);
    assert_unchanged::<Tri, N1>(&mt, &ct);
    assert_unchanged::<Other, N2>(&mo, &co);
    cover!(mt.len == N1 && mo.len == 1, "different populations");
    std::mem::forget(world);
    std::mem::forget(c);
}

harness! { fn c13_clone_two_archetypes_2_3() unwind(5) { clone_two_archetypes::<2, 3>() } }

/// `clone_from` (std's provided method unless the crate overrides it to recycle allocations):
/// an ARBITRARY target state of the same capacity is overwritten by an arbitrary source state.
/// Afterwards the target equals the source field for field over the whole capacity, the source
/// is untouched, and the source's handles resolve in the target. Differing capacities are
/// outside (which capacity the target ends with is not specified).
pub fn clone_from_step<M: MArch, const N: usize>(paths: u8)
where
    M::Arch: Clone,
{
    let s: Model<N> = Model::any_inv();
    let t: Model<N> = Model::any_inv();
    let mut src = load::<M, N>(&s);
    let mut dst = load::<M, N>(&t);
    let world_level = sym::any_bool();
    if world_level {
        dst.clone_from(&src);
    } else {
        M::arch_mut(&mut dst).clone_from(M::arch(&src));
    }
    assert!(M::arch(&dst).len() == s.len && M::arch(&dst).capacity() == N, "clone_from: target has another len/capacity than the source");
    let md: Model<N> = read::<M, N>(&mut dst);
    assert_unchanged::<M, N>(&s, &md);
    let ms: Model<N> = read::<M, N>(&mut src);
    assert_unchanged::<M, N>(&s, &ms);
    if N > 0 {
        let (key, ver) = any_issued_like::<N>();
        probe_entity::<M, N>(&mut dst, &s, key, ver, paths);
        let (idx, dv) = any_direct_like::<N>(&s);
        probe_direct::<M, N>(&mut dst, &s, idx, dv, paths & P_ARCH);
    }
    cover!(N < 2 || t.len > s.len, "target held more entities than the source");
    cover!(N < 2 || t.len < s.len, "target held fewer entities than the source");
    cover!(N < 2 || (t.len == s.len && t.len > 0 && t.free_head != s.free_head), "same population, other free list");
    std::mem::forget(src);
    std::mem::forget(dst);
}

harness! { fn c13_clone_from_foo_3() unwind(5) { clone_from_step::<w1::Foo, 3>(P_ARCH) } }
harness! { fn c13_clone_from_foo_2() unwind(4) { clone_from_step::<w1::Foo, 2>(P_ALL) } }
harness! { fn c13_clone_from_tri_2() unwind(4) { clone_from_step::<w3::Tri, 2>(P_ARCH) } }
