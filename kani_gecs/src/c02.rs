//! C02 — every access path returns the entity's own, latest component values.

use crate::c01::{step_create, step_create_grow, step_destroy, step_destroy_direct};
use crate::model::*;
use crate::steps::*;
use crate::sym;
use crate::worlds::{w1, w16, w3};
use crate::{cover, harness};
use gecs::prelude::*;

/// Arbitrary Inv state, arbitrary live entity: every read path in `mask` yields the model's
/// values for exactly that entity.
pub fn paths_agree<M: Paths, const N: usize>(mask: u16) {
    let m: Model<N> = Model::any_inv();
    let k = sym::any_usize();
    sym::assume(k < m.len);
    let mut world = load::<M, N>(&m);
    let (key, ver) = m.handle_raw(M::ID, k);
    let h: Entity<M::Arch> = EntityAny::from_raw((key, ver)).ok().unwrap().try_into().ok().unwrap();
    let mut path = 0u8;
    while path < M::READ_PATHS {
        if mask & (1 << path) != 0 {
            let got = M::read_via(&mut world, h, path);
            assert!(got.is_some(), "read path lost a live entity");
            let (v, x, ok) = got.unwrap();
            assert!(v == m.val[k] && ok && (x ^ m.aux[k]) & M::AUX_MASK == 0, "read path returned other values");
        }
        path += 1;
    }
    cover!(N < 3 || (m.len == N && k == 1), "middle entity of a full archetype");
    cover!(k + 1 == m.len, "last dense entity");
    std::mem::forget(world);
}

/// Write `(v, x)` to an arbitrary live entity through an arbitrary write path, then read it
/// through an arbitrary read path and read the whole archetype back: the write is seen by
/// every path, nothing else changed.
pub fn write_read<M: Paths, const N: usize>(wmask: u16, rmask: u16) {
    let m: Model<N> = Model::any_inv();
    let k = sym::any_usize();
    sym::assume(k < m.len);
    let mut world = load::<M, N>(&m);
    let (key, ver) = m.handle_raw(M::ID, k);
    let h: Entity<M::Arch> = EntityAny::from_raw((key, ver)).ok().unwrap().try_into().ok().unwrap();
    let wp = sym::any_u8();
    sym::assume(wp < M::WRITE_PATHS && wmask & (1 << wp) != 0);
    let rp = sym::any_u8();
    sym::assume(rp < M::READ_PATHS && rmask & (1 << rp) != 0);
    let v = sym::any_u8();
    let x = sym::any_u32();
    assert!(M::write_via(&mut world, h, wp, v, x), "write path lost a live entity");
    let got = M::read_via(&mut world, h, rp);
    assert!(got.is_some(), "read path lost a live entity after a write");
    let (gv, gx, ok) = got.unwrap();
    assert!(gv == v && ok && (gx ^ x) & M::AUX_MASK == 0, "a write through one path is not seen by another");
    // everything else is untouched
    let post: Model<N> = read::<M, N>(&mut world);
    let mut expect = m;
    expect.val[k] = v;
    expect.aux[k] = x;
    assert_unchanged::<M, N>(&expect, &post);
    cover!(wp as u32 == wmask.trailing_zeros(), "written through the first write path of the mask");
    cover!(wp as u32 == 15 - wmask.leading_zeros(), "written through the last write path of the mask");
    cover!(rp as u32 == 15 - rmask.leading_zeros(), "read through the last read path of the mask");
    cover!(k + 1 < m.len, "written to a non-last entity");
    std::mem::forget(world);
}

/// The same through keys of every kind (typed, dynamic, direct, direct-dynamic) for the paths
/// that take a key: each reaches exactly the entity the key designates.
pub fn paths_agree_keys<M: Paths, const N: usize>() {
    let m: Model<N> = Model::any_inv();
    let k = sym::any_usize();
    sym::assume(k < m.len);
    let mut world = load::<M, N>(&m);
    let (key, ver) = m.handle_raw(M::ID, k);
    let any = EntityAny::from_raw((key, ver)).ok().unwrap();
    let typed: Entity<M::Arch> = any.try_into().ok().unwrap();
    let d = direct_of::<M>(k, m.version);
    let da: EntityDirectAny = d.into();
    let kind = sym::any_u8();
    sym::assume(kind < 4);
    let keyv = match kind {
        0 => Key::Typed(typed),
        1 => Key::Any(any),
        2 => Key::Direct(d),
        _ => Key::DirectAny(da),
    };
    let mut path = 0u8;
    while path < 5 {
        let got = M::read_key(&mut world, keyv, path);
        assert!(got.is_some(), "a key of a live entity was rejected by a read path");
        let (v, x, ok) = got.unwrap();
        assert!(v == m.val[k] && ok && (x ^ m.aux[k]) & M::AUX_MASK == 0, "a read path reached another entity's values through this key kind");
        path += 1;
    }
    cover!(kind == 2 && m.ent_slot[k] as usize != k, "direct key of an entity whose slot position differs from its dense index");
    cover!(kind == 1, "dynamic key");
    std::mem::forget(world);
}

/// The value returned by destroy, looked at through every accessor of the Components trait:
/// named fields, get/get_mut by type, into_tuple (declaration order) and the tuple round trip.
pub fn returned_components<const N: usize>() {
    use w3::*;
    let m: Model<N> = Model::any_inv();
    assume_no_overflow(&m);
    // two removals happen below: keep both counters two steps away from the documented overflow panic
    sym::assume(m.version < u32::MAX - 2);
    let mut i = 0;
    while i < N {
        sym::assume(m.slot_ver[i] < u32::MAX - 2);
        i += 1;
    }
    let k = sym::any_usize();
    sym::assume(k < m.len);
    let mut world = load::<Tri, N>(&m);
    let (key, ver) = m.handle_raw(Tri::ID, k);
    let h: Entity<ArchTri> = EntityAny::from_raw((key, ver)).ok().unwrap().try_into().ok().unwrap();
    let mut c = world.destroy(h).unwrap();
    let want_pad = Pad(m.val[k] ^ 0x5a, m.aux[k]);
    assert!(c.p.0 == m.val[k] && c.pad == want_pad, "named fields of the returned components");
    assert!(c.get::<P>().0 == m.val[k] && *c.get::<Pad>() == want_pad && *c.get::<Zs>() == Zs, "Components::get::<C> returned another column");
    c.get_mut::<P>().0 ^= 0xff;
    assert!(c.p.0 == m.val[k] ^ 0xff && c.pad == want_pad, "Components::get_mut::<C> wrote another column");
    let (tp, tpad, _tz) = c.into_tuple();
    assert!(tp.0 == m.val[k] ^ 0xff && tpad == want_pad, "into_tuple is not in declaration order");
    // tuple -> Components -> create: columns land where they belong
    let comps: ArchTriComponents = (P(9), Pad(8, 7), Zs).into();
    let e = world.arch_tri.create(comps);
    let back: (P, Pad, Zs) = world.destroy(e).unwrap().into();
    assert!(back.0 == P(9) && back.1 == Pad(8, 7), "tuple round trip through create/destroy mixed up columns");
    cover!(k + 1 < m.len, "non-last entity");
    std::mem::forget(world);
}

const R_QUERIES: u16 = 0b0000_0000_1111;
const R_VIEWS: u16 = 0b0000_0111_0000;
const R_SLICES: u16 = 0b1111_1000_0000;
const R_ALL: u16 = 0b1111_1111_1111;
const W_QUERIES: u16 = 0b00_0000_1111;
const W_OTHERS: u16 = 0b11_1111_0000;

harness! { fn c02_paths_queries_foo_3() unwind(14) { paths_agree::<w1::Foo, 3>(R_QUERIES) } }
harness! { fn c02_paths_views_foo_3() unwind(14) { paths_agree::<w1::Foo, 3>(R_VIEWS) } }
harness! { fn c02_paths_slices_foo_3() unwind(14) { paths_agree::<w1::Foo, 3>(R_SLICES) } }
harness! { fn c02_paths_queries_tri_3() unwind(14) { paths_agree::<w3::Tri, 3>(R_QUERIES) } }
harness! { fn c02_paths_views_tri_3() unwind(14) { paths_agree::<w3::Tri, 3>(R_VIEWS) } }
harness! { fn c02_paths_slices_tri_3() unwind(14) { paths_agree::<w3::Tri, 3>(R_SLICES) } }
harness! { fn c02_paths_all_tri_2() unwind(14) { paths_agree::<w3::Tri, 2>(R_ALL) } }
harness! { fn c02_paths_all_other_2() unwind(14) { paths_agree::<w3::Other, 2>(R_ALL) } }
harness! { fn c02_paths_all_bar_2() unwind(14) { paths_agree::<w1::Bar, 2>(R_ALL) } }

harness! { fn c02_returned_components_tri_3() unwind(5) { returned_components::<3>() } }
harness! { fn c02_paths_agree_zf_2() unwind(14) { paths_agree::<crate::worlds::wzf::ZfM, 2>(R_ALL) } }
harness! { fn c02_write_read_zf_2() unwind(4) { write_read::<crate::worlds::wzf::ZfM, 2>(W_QUERIES | W_OTHERS, R_ALL) } }
harness! { fn c02_destroy_zf_3() unwind(5) { step_destroy::<crate::worlds::wzf::ZfM, 3>(0, 0) } }
harness! { fn c02_grow_zf_2() unwind(8) { step_create_grow::<crate::worlds::wzf::ZfM, 2, 6>(0) } }
harness! { fn c02_grow_al_1() unwind(6) { step_create_grow::<crate::worlds::wal::AlM, 1, 4>(0) } }
harness! { fn c02_grow_al_2() unwind(8) { step_create_grow::<crate::worlds::wal::AlM, 2, 6>(0) } }
harness! { fn c02_destroy_al_3() unwind(5) { step_destroy::<crate::worlds::wal::AlM, 3>(0, 0) } }
harness! { fn c02_paths_agree_al_2() unwind(14) { paths_agree::<crate::worlds::wal::AlM, 2>(R_ALL) } }
harness! { fn c02_paths_keys_tri_3() unwind(7) { paths_agree_keys::<w3::Tri, 3>() } }
harness! { fn c02_paths_keys_foo_3() unwind(7) { paths_agree_keys::<w1::Foo, 3>() } }
harness! { fn c02_paths_keys_other_2() unwind(7) { paths_agree_keys::<w3::Other, 2>() } }

harness! { fn c02_write_queries_tri_2() unwind(4) { write_read::<w3::Tri, 2>(W_QUERIES, R_ALL) } }
harness! { fn c02_write_others_tri_2() unwind(4) { write_read::<w3::Tri, 2>(W_OTHERS, R_ALL) } }
harness! { fn c02_write_queries_tri_3() unwind(5) { write_read::<w3::Tri, 3>(W_QUERIES, R_SLICES | R_VIEWS) } }
harness! { fn c02_write_others_tri_3() unwind(5) { write_read::<w3::Tri, 3>(W_OTHERS, R_QUERIES) } }
harness! { fn c02_write_all_foo_2() unwind(4) { write_read::<w1::Foo, 2>(W_QUERIES | W_OTHERS, R_ALL) } }
harness! { fn c02_write_all_other_2() unwind(4) { write_read::<w3::Other, 2>(W_QUERIES | W_OTHERS, R_ALL) } }

// structural steps on multi-column shapes: every other entity keeps ALL its columns
// (the transition relations of steps.rs compare val, aux and column consistency)
harness! { fn c02_destroy_tri_3() unwind(5) { step_destroy::<w3::Tri, 3>(0, 0) } }
harness! { fn c02_destroy_any_tri_3() unwind(5) { step_destroy::<w3::Tri, 3>(3, 0) } }
harness! { fn c02_destroy_direct_tri_3() unwind(5) { step_destroy_direct::<w3::Tri, 3>(0, 0) } }
harness! { fn c02_destroy_other_3() unwind(5) { step_destroy::<w3::Other, 3>(1, 0) } }
harness! { fn c02_create_tri_3() unwind(5) { step_create::<w3::Tri, 3>(false, 0) } }
harness! { fn c02_grow_tri_2() unwind(8) { step_create_grow::<w3::Tri, 2, 6>(0) } }
harness! { fn c02_grow_other_1() unwind(6) { step_create_grow::<w3::Other, 1, 4>(0) } }
harness! { fn c02_destroy_wide_2() unwind(4) { step_destroy::<w16::Wide, 2>(0, 0) } }
harness! { fn c02_destroy_any_wide_2() unwind(4) { step_destroy::<w16::Wide, 2>(3, 0) } }
harness! { fn c02_create_wide_2() unwind(4) { step_create::<w16::Wide, 2>(false, 0) } }
harness! { fn c02_grow_wide_1() unwind(6) { step_create_grow::<w16::Wide, 1, 4>(0) } }
harness! { fn c02_destroy_wide_3() unwind(5) { step_destroy::<w16::Wide, 3>(1, 0) } }
