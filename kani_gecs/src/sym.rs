//! Symbolic inputs. Under `cargo kani` every value is `kani::any()` (decided by the solver).
//! In a native build the same calls pop bytes recorded from a Kani counterexample
//! (`--concrete-playback=print`), so the identical harness body replays against the real build.
//!
//! Only primitive draws exist here (one recorded value each, in call order), so the native
//! replay does not depend on how Kani groups arrays or structs.

#[cfg(not(kani))]
pub mod replay {
    use std::cell::RefCell;
    use std::collections::VecDeque;

    thread_local! {
        static VALUES: RefCell<VecDeque<Vec<u8>>> = RefCell::new(VecDeque::new());
        static EXHAUSTED: RefCell<bool> = RefCell::new(false);
    }

    /// Marker payload: the recorded values do not satisfy an assumption / ran out.
    pub struct NotReproduced(pub &'static str);

    pub fn load(values: Vec<Vec<u8>>) {
        VALUES.with(|v| *v.borrow_mut() = values.into());
        EXHAUSTED.with(|e| *e.borrow_mut() = false);
    }

    pub fn remaining() -> usize {
        VALUES.with(|v| v.borrow().len())
    }

    pub fn pop<const W: usize>() -> [u8; W] {
        let next = VALUES.with(|v| v.borrow_mut().pop_front());
        match next {
            Some(bytes) if bytes.len() == W => {
                let mut out = [0u8; W];
                out.copy_from_slice(&bytes);
                out
            }
            Some(_) => std::panic::panic_any(NotReproduced("recorded value has another width")),
            None => std::panic::panic_any(NotReproduced("recorded values exhausted")),
        }
    }
}

#[cfg(kani)]
#[inline(always)]
pub fn any_u8() -> u8 {
    kani::any()
}
#[cfg(kani)]
#[inline(always)]
pub fn any_u16() -> u16 {
    kani::any()
}
#[cfg(kani)]
#[inline(always)]
pub fn any_u32() -> u32 {
    kani::any()
}
#[cfg(kani)]
#[inline(always)]
pub fn any_usize() -> usize {
    kani::any()
}
#[cfg(kani)]
#[inline(always)]
pub fn any_bool() -> bool {
    kani::any()
}
#[cfg(kani)]
#[inline(always)]
pub fn assume(cond: bool) {
    kani::assume(cond)
}

#[cfg(not(kani))]
pub fn any_u8() -> u8 {
    u8::from_le_bytes(replay::pop::<1>())
}
#[cfg(not(kani))]
pub fn any_u16() -> u16 {
    u16::from_le_bytes(replay::pop::<2>())
}
#[cfg(not(kani))]
pub fn any_u32() -> u32 {
    u32::from_le_bytes(replay::pop::<4>())
}
#[cfg(not(kani))]
pub fn any_usize() -> usize {
    usize::from_le_bytes(replay::pop::<8>())
}
#[cfg(not(kani))]
pub fn any_bool() -> bool {
    let b = u8::from_le_bytes(replay::pop::<1>());
    if b > 1 {
        std::panic::panic_any(replay::NotReproduced("recorded bool is not 0/1"));
    }
    b == 1
}
#[cfg(not(kani))]
pub fn assume(cond: bool) {
    if !cond {
        std::panic::panic_any(replay::NotReproduced("assumption does not hold for recorded values"));
    }
}

pub fn arr_u8<const N: usize>() -> [u8; N] {
    let mut a = [0u8; N];
    let mut i = 0;
    while i < N {
        a[i] = any_u8();
        i += 1;
    }
    a
}

pub fn arr_u32<const N: usize>() -> [u32; N] {
    let mut a = [0u32; N];
    let mut i = 0;
    while i < N {
        a[i] = any_u32();
        i += 1;
    }
    a
}

pub fn arr_bool<const N: usize>() -> [bool; N] {
    let mut a = [false; N];
    let mut i = 0;
    while i < N {
        a[i] = any_bool();
        i += 1;
    }
    a
}

/// Reachability / pre-state-class witness. Under Kani a `kani::cover!`; natively nothing.
#[macro_export]
macro_rules! cover {
    ($cond:expr, $msg:literal) => {
        #[cfg(all(kani, not(verif_nocover)))]
        kani::cover!($cond, $msg);
        #[cfg(any(not(kani), verif_nocover))]
        let _ = &$cond;
    };
}

/// Declares one proof harness. Under Kani it is a `#[kani::proof]` with the given unwinding
/// bound (unwinding assertions stay on); natively it is an ordinary public function that the
/// replay binary calls after loading recorded values.
#[macro_export]
macro_rules! harness {
    ($(#[$m:meta])* fn $name:ident() unwind($u:literal) $body:block) => {
        #[cfg_attr(kani, kani::proof)]
        #[cfg_attr(kani, kani::unwind($u))]
        $(#[$m])*
        #[allow(unused_mut, unused_variables)]
        pub fn $name() $body
    };
}

/// A function that only exists natively (behaviour after real unwinding, which Kani cannot
/// model). It is callable through the replay binary like a harness.
#[macro_export]
macro_rules! native_only {
    (fn $name:ident() $body:block) => {
        #[cfg(not(kani))]
        #[allow(unused_mut, unused_variables)]
        pub fn $name() $body
    };
}
