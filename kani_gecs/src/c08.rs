//! C08 — no handle is ever issued twice within a world.
//! (i) step obligations of the ghost invariant H1 (DESIGN §3): a created handle differs from
//! every issued-compatible handle and issued-compatibility is monotone; (ii) at the overflow
//! boundary the default configuration panics instead of wrapping a generation.

use crate::model::*;
use crate::steps::*;
use crate::sym;
use crate::worlds::{w1, w3};
use crate::{cover, harness};
use gecs::prelude::*;

/// An arbitrary ghost handle `(position, generation)` that is issued-compatible with `m`:
/// stands for every handle create may have returned earlier in any history leading to `m`.
fn any_ghost<const N: usize>(m: &Model<N>) -> (usize, u32) {
    let gp = sym::any_usize();
    let gg = sym::any_u32();
    sym::assume(m.issued_compatible(gp, gg));
    (gp, gg)
}

/// create (with or without growth): the new handle equals no issued-compatible handle, and
/// every issued-compatible handle stays issued-compatible.
pub fn fresh_on_create<M: MArch, const N: usize, const K: usize>(within: bool) {
    let m: Model<N> = Model::any_inv();
    if K == N {
        sym::assume(m.len < N);
    } else {
        sym::assume(m.len == N);
    }
    let mut world = load::<M, N>(&m);
    let ghost = if N > 0 { Some(any_ghost(&m)) } else { None };
    let (mut w_same, mut w_prev) = (false, false);
    let e = if within {
        match world.create_within_capacity::<M::Arch>(M::mk(sym::any_u8(), sym::any_u32())) {
            Ok(e) => e,
            Err(c) => {
                std::mem::forget(c);
                panic!("create_within_capacity refused although len < capacity");
            }
        }
    } else {
        world.create::<M::Arch>(M::mk(sym::any_u8(), sym::any_u32()))
    };
    let (key, g) = e.into_any().raw();
    assert!((key & 0xff) as u8 == M::ID && e.archetype_id() == M::ID, "created handle carries another archetype id");
    let p = (key >> 8) as usize;
    let post: Model<K> = read::<M, K>(&mut world);
    if let Some((gp, gg)) = ghost {
        assert!(!(gp == p && gg == g), "create returned a handle equal to one that was issued before");
        assert!(post.issued_compatible(gp, gg), "an issued handle stopped being issued-compatible (a generation went backwards)");
        w_same = gp == p;
        w_prev = gp == p && gg + 1 == g;
    }
    cover!(K != N || w_same, "ghost handle on the very position create reused");
    cover!(K != N || w_prev, "ghost is the immediately preceding occupant of the position");
    // the new handle is itself live and issued-compatible from now on
    assert!(post.issued_compatible(p, g) && post.lookup(M::ID, key, g).is_some(), "fresh handle not live");
    std::mem::forget(world);
}

/// destroy: issued-compatibility is monotone, and the destroyed handle becomes
/// "issued, dead": strictly below its position's generation.
pub fn monotone_on_destroy<M: MArch, const N: usize>() {
    let m: Model<N> = Model::any_inv();
    assume_no_overflow(&m);
    let mut world = load::<M, N>(&m);
    let (gp, gg) = any_ghost(&m);
    let k = sym::any_usize();
    sym::assume(k < m.len);
    let (key, ver) = m.handle_raw(M::ID, k);
    let h = EntityAny::from_raw((key, ver)).ok().unwrap();
    assert!(world.destroy(h).is_some());
    let post: Model<N> = read::<M, N>(&mut world);
    assert!(post.issued_compatible(gp, gg), "an issued handle stopped being issued-compatible after a destroy");
    let p = (key >> 8) as usize;
    assert!(post.issued_compatible(p, ver) && !post.slot_live(p), "destroyed handle is not an issued, dead handle");
    #[cfg(not(feature = "wrapping_version"))]
    assert!(ver < post.slot_ver[p], "the destroyed handle's generation can be issued again");
    cover!(gp == p && gg == ver, "ghost is the destroyed handle itself");
    cover!(gp == p && gg < ver, "ghost is an older occupant of the destroyed position");
    std::mem::forget(world);
}

/// Handles created in two different archetypes of one world differ.
pub fn cross_archetype<const N1: usize, const N2: usize>() {
    use w1::*;
    let mf: Model<N1> = Model::any_inv();
    let mb: Model<N2> = Model::any_inv();
    sym::assume(mf.len < N1 && mb.len < N2);
    let mut world = W1::both(N1, N2);
    load_into::<Foo, N1>(&mut world, &mf);
    load_into::<Bar, N2>(&mut world, &mb);
    let e1 = world.create::<ArchFoo>((CA(1),));
    let e2 = world.create::<ArchBar>((CA(2), CB(3)));
    assert!(e1.into_any() != e2.into_any(), "two archetypes issued equal handles");
    assert!(e1.into_any().raw() != e2.into_any().raw(), "two archetypes issued bit-equal handles");
    assert!(e1.into_any().archetype_id() == 5 && e2.into_any().archetype_id() == 255);
    cover!(e1.into_any().raw().0 >> 8 == e2.into_any().raw().0 >> 8 && e1.into_any().raw().1 == e2.into_any().raw().1, "same position and generation in both archetypes");
    std::mem::forget(world);
}

/// Overflow boundary: the destroyed position's generation (which = 0) or the archetype version
/// (which = 1) is u32::MAX. Default configuration: clean panic, nothing returns.
/// `wrapping_version`: no panic, the counter wraps to 1 (documented exception), Inv holds.
pub fn overflow<M: MArch, const N: usize>(which: u8, kind: u8) {
    let m: Model<N> = Model::any_inv();
    let k = sym::any_usize();
    sym::assume(k < m.len);
    let p = m.ent_slot[k] as usize;
    if which == 0 {
        sym::assume(m.slot_ver[p] == u32::MAX && m.version != u32::MAX);
    } else {
        sym::assume(m.version == u32::MAX && m.slot_ver[p] != u32::MAX);
    }
    let mut world = load::<M, N>(&m);
    let (key, ver) = m.handle_raw(M::ID, k);
    let any = EntityAny::from_raw((key, ver)).ok().unwrap();
    let typed: Entity<M::Arch> = any.try_into().ok().unwrap();
    let ok = match kind {
        0 => M::arch_mut(&mut world).destroy(typed).map(|c| M::un(c)).is_some(),
        1 => world.destroy(any).is_some(),
        2 => M::arch_mut(&mut world).destroy(direct_of::<M>(k, m.version)).map(|c| M::un(c)).is_some(),
        _ => {
            let da: EntityDirectAny = direct_of::<M>(k, m.version).into();
            world.destroy(da).is_some()
        }
    };
    #[cfg(not(feature = "wrapping_version"))]
    {
        cover!(true, "UNREACHABLE: destroy returned although a generation counter was at u32::MAX");
    }
    #[cfg(feature = "wrapping_version")]
    {
        assert!(ok);
        let post: Model<N> = read::<M, N>(&mut world);
        assert!(post.inv(), "representation invariant broken by wraparound");
        assert!(post.len + 1 == m.len && !post.slot_live(p));
        if which == 0 {
            assert!(post.slot_ver[p] == 1, "generation did not wrap to the start value");
        } else {
            assert!(post.version == 1, "archetype version did not wrap to the start value");
        }
        cover!(true, "wrapped without panic");
    }
    std::mem::forget(world);
}

harness! { fn c08_fresh_create_foo_3() unwind(5) { fresh_on_create::<w1::Foo, 3, 3>(false) } }
harness! { fn c08_fresh_create_foo_4() unwind(6) { fresh_on_create::<w1::Foo, 4, 4>(false) } }
harness! { fn c08_fresh_within_foo_3() unwind(5) { fresh_on_create::<w1::Foo, 3, 3>(true) } }
harness! { fn c08_fresh_create_tri_2() unwind(4) { fresh_on_create::<w3::Tri, 2, 2>(false) } }
harness! { fn c08_fresh_grow_foo_2() unwind(8) { fresh_on_create::<w1::Foo, 2, 6>(false) } }
harness! { fn c08_fresh_grow_foo_0() unwind(4) { fresh_on_create::<w1::Foo, 0, 2>(false) } }
harness! { fn c08_fresh_grow_foo_3() unwind(10) { fresh_on_create::<w1::Foo, 3, 8>(false) } }
harness! { fn c08_monotone_destroy_foo_3() unwind(5) { monotone_on_destroy::<w1::Foo, 3>() } }
harness! { fn c08_monotone_destroy_foo_4() unwind(6) { monotone_on_destroy::<w1::Foo, 4>() } }
harness! { fn c08_monotone_destroy_tri_2() unwind(4) { monotone_on_destroy::<w3::Tri, 2>() } }
harness! { fn c08_cross_archetype_2_2() unwind(4) { cross_archetype::<2, 2>() } }
harness! { fn c08_overflow_slot_typed_foo_3() unwind(5) { overflow::<w1::Foo, 3>(0, 0) } }
harness! { fn c08_overflow_slot_any_foo_2() unwind(4) { overflow::<w1::Foo, 2>(0, 1) } }
harness! { fn c08_overflow_slot_direct_foo_2() unwind(4) { overflow::<w1::Foo, 2>(0, 2) } }
harness! { fn c08_overflow_arch_typed_foo_3() unwind(5) { overflow::<w1::Foo, 3>(1, 0) } }
harness! { fn c08_overflow_arch_directany_foo_2() unwind(4) { overflow::<w1::Foo, 2>(1, 3) } }
harness! { fn c08_overflow_slot_tri_2() unwind(4) { overflow::<w3::Tri, 2>(0, 1) } }
