//! C11 — runtime-borrowed access panics instead of aliasing, and never refuses wrongly.
//! Access matrix over W3 (ArchTri: P, Pad, Zs; ArchOther: Q, P). An access is
//! (kind, mutable?, archetype, column). Conflict <=> same archetype, same column, one mutable.

use crate::model::*;
use crate::steps::*;
use crate::sym;
use crate::worlds::w3::*;
use crate::{cover, harness};
use gecs::prelude::*;

pub const K_SLICE: u8 = 0; // borrow_slice / borrow_slice_mut
pub const K_COMP: u8 = 1; // Borrow::component / component_mut
pub const K_FIND: u8 = 2; // ecs_find_borrow! with & / &mut parameter
pub const K_ITER: u8 = 3; // ecs_iter_borrow! with & / &mut parameter
pub const K_CLONE: u8 = 4; // world.clone() (inner only; borrows every column shared)
pub const K_FINDD: u8 = 5; // ecs_find_borrow! keyed by a DIRECT handle (EntityDirect<ArchTri> / EntityDirectAny for ArchOther)

#[derive(Clone, Copy)]
pub struct Access {
    pub kind: u8,
    pub mutable: bool,
    pub other_arch: bool, // false: ArchTri, true: ArchOther
    pub second_col: bool, // false: P (present in both), true: Pad (Tri) / Q (Other)
    pub second_entity: bool,
}

pub fn conflict(o: &Access, i: &Access) -> bool {
    if i.kind == K_CLONE {
        return o.mutable;
    }
    o.other_arch == i.other_arch && o.second_col == i.second_col && (o.mutable || i.mutable)
}

pub struct Ctx<'a> {
    pub world: &'a W3,
    pub et: [Entity<ArchTri>; 2],
    pub eo: [Entity<ArchOther>; 2],
    pub dt: [EntityDirect<ArchTri>; 2],
    pub dov: [EntityDirectAny; 2],
    pub mt: &'a Model<2>,
    pub mo: &'a Model<2>,
}

/// Performs the inner access and checks the value it observes against the model.
pub fn inner(cx: &Ctx, a: &Access) {
    let e = a.second_entity as usize;
    match (a.kind, a.other_arch, a.second_col, a.mutable) {
        (K_SLICE, false, false, false) => assert!(cx.world.arch_tri.borrow_slice::<P>()[e].0 == cx.mt.val[e]),
        (K_SLICE, false, false, true) => assert!(cx.world.arch_tri.borrow_slice_mut::<P>()[e].0 == cx.mt.val[e]),
        (K_SLICE, false, true, false) => assert!(cx.world.arch_tri.borrow_slice::<Pad>()[e].1 == cx.mt.aux[e]),
        (K_SLICE, false, true, true) => assert!(cx.world.arch_tri.borrow_slice_mut::<Pad>()[e].1 == cx.mt.aux[e]),
        (K_SLICE, true, false, false) => assert!(cx.world.arch_other.borrow_slice::<P>()[e].0 == cx.mo.val[e]),
        (K_SLICE, true, false, true) => assert!(cx.world.arch_other.borrow_slice_mut::<P>()[e].0 == cx.mo.val[e]),
        (K_SLICE, true, true, false) => assert!(cx.world.arch_other.borrow_slice::<Q>()[e].0 == cx.mo.aux[e] as u16),
        (K_SLICE, true, true, true) => assert!(cx.world.arch_other.borrow_slice_mut::<Q>()[e].0 == cx.mo.aux[e] as u16),

        (K_COMP, false, false, false) => assert!(cx.world.borrow::<ArchTri, _>(cx.et[e]).unwrap().component::<P>().0 == cx.mt.val[e]),
        (K_COMP, false, false, true) => assert!(cx.world.borrow::<ArchTri, _>(cx.et[e]).unwrap().component_mut::<P>().0 == cx.mt.val[e]),
        (K_COMP, false, true, false) => assert!(cx.world.borrow::<ArchTri, _>(cx.et[e]).unwrap().component::<Pad>().1 == cx.mt.aux[e]),
        (K_COMP, false, true, true) => assert!(cx.world.borrow::<ArchTri, _>(cx.et[e]).unwrap().component_mut::<Pad>().1 == cx.mt.aux[e]),
        (K_COMP, true, false, false) => assert!(cx.world.borrow::<ArchOther, _>(cx.eo[e]).unwrap().component::<P>().0 == cx.mo.val[e]),
        (K_COMP, true, false, true) => assert!(cx.world.borrow::<ArchOther, _>(cx.eo[e]).unwrap().component_mut::<P>().0 == cx.mo.val[e]),
        (K_COMP, true, true, false) => assert!(cx.world.borrow::<ArchOther, _>(cx.eo[e]).unwrap().component::<Q>().0 == cx.mo.aux[e] as u16),
        (K_COMP, true, true, true) => assert!(cx.world.borrow::<ArchOther, _>(cx.eo[e]).unwrap().component_mut::<Q>().0 == cx.mo.aux[e] as u16),

        (K_FIND, false, false, false) => assert!(ecs_find_borrow!(cx.world, cx.et[e], |p: &P| p.0) == Some(cx.mt.val[e])),
        (K_FIND, false, false, true) => assert!(ecs_find_borrow!(cx.world, cx.et[e], |p: &mut P| p.0) == Some(cx.mt.val[e])),
        (K_FIND, false, true, false) => assert!(ecs_find_borrow!(cx.world, cx.et[e], |p: &Pad| p.1) == Some(cx.mt.aux[e])),
        (K_FIND, false, true, true) => assert!(ecs_find_borrow!(cx.world, cx.et[e], |p: &mut Pad| p.1) == Some(cx.mt.aux[e])),
        (K_FIND, true, false, false) => assert!(ecs_find_borrow!(cx.world, cx.eo[e], |p: &P| p.0) == Some(cx.mo.val[e])),
        (K_FIND, true, false, true) => assert!(ecs_find_borrow!(cx.world, cx.eo[e], |p: &mut P| p.0) == Some(cx.mo.val[e])),
        (K_FIND, true, true, false) => assert!(ecs_find_borrow!(cx.world, cx.eo[e], |q: &Q| q.0) == Some(cx.mo.aux[e] as u16)),
        (K_FIND, true, true, true) => assert!(ecs_find_borrow!(cx.world, cx.eo[e], |q: &mut Q| q.0) == Some(cx.mo.aux[e] as u16)),

        (K_ITER, false, false, false) => { let mut n = 0; ecs_iter_borrow!(cx.world, |_e: &Entity<ArchTri>, _p: &P| { n += 1; }); assert!(n == 2) }
        (K_ITER, false, false, true) => { let mut n = 0; ecs_iter_borrow!(cx.world, |_e: &Entity<ArchTri>, _p: &mut P| { n += 1; }); assert!(n == 2) }
        (K_ITER, false, true, false) => { let mut n = 0; ecs_iter_borrow!(cx.world, |_p: &Pad| { n += 1; }); assert!(n == 2) }
        (K_ITER, false, true, true) => { let mut n = 0; ecs_iter_borrow!(cx.world, |_p: &mut Pad| { n += 1; }); assert!(n == 2) }
        (K_ITER, true, false, false) => { let mut n = 0; ecs_iter_borrow!(cx.world, |_e: &Entity<ArchOther>, _p: &P| { n += 1; }); assert!(n == 2) }
        (K_ITER, true, false, true) => { let mut n = 0; ecs_iter_borrow!(cx.world, |_e: &Entity<ArchOther>, _p: &mut P| { n += 1; }); assert!(n == 2) }
        (K_ITER, true, true, false) => { let mut n = 0; ecs_iter_borrow!(cx.world, |_q: &Q| { n += 1; }); assert!(n == 2) }
        (K_ITER, true, true, true) => { let mut n = 0; ecs_iter_borrow!(cx.world, |_q: &mut Q| { n += 1; }); assert!(n == 2) }

        (K_FINDD, false, false, false) => assert!(ecs_find_borrow!(cx.world, cx.dt[e], |p: &P| p.0) == Some(cx.mt.val[e])),
        (K_FINDD, false, false, true) => assert!(ecs_find_borrow!(cx.world, cx.dt[e], |p: &mut P| p.0) == Some(cx.mt.val[e])),
        (K_FINDD, false, true, false) => assert!(ecs_find_borrow!(cx.world, cx.dt[e], |p: &Pad| p.1) == Some(cx.mt.aux[e])),
        (K_FINDD, false, true, true) => assert!(ecs_find_borrow!(cx.world, cx.dt[e], |p: &mut Pad| p.1) == Some(cx.mt.aux[e])),
        (K_FINDD, true, false, false) => assert!(ecs_find_borrow!(cx.world, cx.dov[e], |p: &P| p.0) == Some(cx.mo.val[e])),
        (K_FINDD, true, false, true) => assert!(ecs_find_borrow!(cx.world, cx.dov[e], |p: &mut P| p.0) == Some(cx.mo.val[e])),
        (K_FINDD, true, true, false) => assert!(ecs_find_borrow!(cx.world, cx.dov[e], |q: &Q| q.0) == Some(cx.mo.aux[e] as u16)),
        (K_FINDD, true, true, true) => assert!(ecs_find_borrow!(cx.world, cx.dov[e], |q: &mut Q| q.0) == Some(cx.mo.aux[e] as u16)),

        _ => {
            let c = cx.world.clone();
            assert!(c.arch_tri.len() == 2 && c.arch_other.len() == 2);
            std::mem::forget(c);
        }
    }
}

/// Holds the outer access open and runs `f` inside it.
pub fn with_outer(cx: &Ctx, a: &Access, mut f: impl FnMut()) {
    let e = a.second_entity as usize;
    match (a.kind, a.other_arch, a.second_col, a.mutable) {
        (K_SLICE, false, false, false) => { let g = cx.world.arch_tri.borrow_slice::<P>(); f(); assert!(g[e].0 == cx.mt.val[e]); }
        (K_SLICE, false, false, true) => { let g = cx.world.arch_tri.borrow_slice_mut::<P>(); f(); assert!(g[e].0 == cx.mt.val[e]); }
        (K_SLICE, false, true, false) => { let g = cx.world.arch_tri.borrow_slice::<Pad>(); f(); assert!(g[e].1 == cx.mt.aux[e]); }
        (K_SLICE, false, true, true) => { let g = cx.world.arch_tri.borrow_slice_mut::<Pad>(); f(); assert!(g[e].1 == cx.mt.aux[e]); }
        (K_SLICE, true, false, false) => { let g = cx.world.arch_other.borrow_slice::<P>(); f(); assert!(g[e].0 == cx.mo.val[e]); }
        (K_SLICE, true, false, true) => { let g = cx.world.arch_other.borrow_slice_mut::<P>(); f(); assert!(g[e].0 == cx.mo.val[e]); }
        (K_SLICE, true, true, false) => { let g = cx.world.arch_other.borrow_slice::<Q>(); f(); assert!(g[e].0 == cx.mo.aux[e] as u16); }
        (K_SLICE, true, true, true) => { let g = cx.world.arch_other.borrow_slice_mut::<Q>(); f(); assert!(g[e].0 == cx.mo.aux[e] as u16); }

        (K_COMP, false, false, false) => { let b = cx.world.borrow::<ArchTri, _>(cx.et[e]).unwrap(); let g = b.component::<P>(); f(); assert!(g.0 == cx.mt.val[e]); }
        (K_COMP, false, false, true) => { let b = cx.world.borrow::<ArchTri, _>(cx.et[e]).unwrap(); let g = b.component_mut::<P>(); f(); assert!(g.0 == cx.mt.val[e]); }
        (K_COMP, false, true, false) => { let b = cx.world.borrow::<ArchTri, _>(cx.et[e]).unwrap(); let g = b.component::<Pad>(); f(); assert!(g.1 == cx.mt.aux[e]); }
        (K_COMP, false, true, true) => { let b = cx.world.borrow::<ArchTri, _>(cx.et[e]).unwrap(); let g = b.component_mut::<Pad>(); f(); assert!(g.1 == cx.mt.aux[e]); }
        (K_COMP, true, false, false) => { let b = cx.world.borrow::<ArchOther, _>(cx.eo[e]).unwrap(); let g = b.component::<P>(); f(); assert!(g.0 == cx.mo.val[e]); }
        (K_COMP, true, false, true) => { let b = cx.world.borrow::<ArchOther, _>(cx.eo[e]).unwrap(); let g = b.component_mut::<P>(); f(); assert!(g.0 == cx.mo.val[e]); }
        (K_COMP, true, true, false) => { let b = cx.world.borrow::<ArchOther, _>(cx.eo[e]).unwrap(); let g = b.component::<Q>(); f(); assert!(g.0 == cx.mo.aux[e] as u16); }
        (K_COMP, true, true, true) => { let b = cx.world.borrow::<ArchOther, _>(cx.eo[e]).unwrap(); let g = b.component_mut::<Q>(); f(); assert!(g.0 == cx.mo.aux[e] as u16); }

        (K_FIND, false, false, false) => { ecs_find_borrow!(cx.world, cx.et[e], |p: &P| { f(); assert!(p.0 == cx.mt.val[e]); }); }
        (K_FIND, false, false, true) => { ecs_find_borrow!(cx.world, cx.et[e], |p: &mut P| { f(); assert!(p.0 == cx.mt.val[e]); }); }
        (K_FIND, false, true, false) => { ecs_find_borrow!(cx.world, cx.et[e], |p: &Pad| { f(); assert!(p.1 == cx.mt.aux[e]); }); }
        (K_FIND, false, true, true) => { ecs_find_borrow!(cx.world, cx.et[e], |p: &mut Pad| { f(); assert!(p.1 == cx.mt.aux[e]); }); }
        (K_FIND, true, false, false) => { ecs_find_borrow!(cx.world, cx.eo[e], |p: &P| { f(); assert!(p.0 == cx.mo.val[e]); }); }
        (K_FIND, true, false, true) => { ecs_find_borrow!(cx.world, cx.eo[e], |p: &mut P| { f(); assert!(p.0 == cx.mo.val[e]); }); }
        (K_FIND, true, true, false) => { ecs_find_borrow!(cx.world, cx.eo[e], |q: &Q| { f(); assert!(q.0 == cx.mo.aux[e] as u16); }); }
        (K_FIND, true, true, true) => { ecs_find_borrow!(cx.world, cx.eo[e], |q: &mut Q| { f(); assert!(q.0 == cx.mo.aux[e] as u16); }); }

        (K_FINDD, false, false, false) => { ecs_find_borrow!(cx.world, cx.dt[e], |p: &P| { f(); assert!(p.0 == cx.mt.val[e]); }); }
        (K_FINDD, false, false, true) => { ecs_find_borrow!(cx.world, cx.dt[e], |p: &mut P| { f(); assert!(p.0 == cx.mt.val[e]); }); }
        (K_FINDD, false, true, false) => { ecs_find_borrow!(cx.world, cx.dt[e], |p: &Pad| { f(); assert!(p.1 == cx.mt.aux[e]); }); }
        (K_FINDD, false, true, true) => { ecs_find_borrow!(cx.world, cx.dt[e], |p: &mut Pad| { f(); assert!(p.1 == cx.mt.aux[e]); }); }
        (K_FINDD, true, false, false) => { ecs_find_borrow!(cx.world, cx.dov[e], |p: &P| { f(); assert!(p.0 == cx.mo.val[e]); }); }
        (K_FINDD, true, false, true) => { ecs_find_borrow!(cx.world, cx.dov[e], |p: &mut P| { f(); assert!(p.0 == cx.mo.val[e]); }); }
        (K_FINDD, true, true, false) => { ecs_find_borrow!(cx.world, cx.dov[e], |q: &Q| { f(); assert!(q.0 == cx.mo.aux[e] as u16); }); }
        (K_FINDD, true, true, true) => { ecs_find_borrow!(cx.world, cx.dov[e], |q: &mut Q| { f(); assert!(q.0 == cx.mo.aux[e] as u16); }); }

        // the inner access is made during the FIRST closure call of the iteration
        (K_ITER, false, false, false) => { let mut first = true; ecs_iter_borrow!(cx.world, |_e: &Entity<ArchTri>, _p: &P| { if first { first = false; f(); } }); }
        (K_ITER, false, false, true) => { let mut first = true; ecs_iter_borrow!(cx.world, |_e: &Entity<ArchTri>, _p: &mut P| { if first { first = false; f(); } }); }
        (K_ITER, false, true, false) => { let mut first = true; ecs_iter_borrow!(cx.world, |_p: &Pad| { if first { first = false; f(); } }); }
        (K_ITER, false, true, true) => { let mut first = true; ecs_iter_borrow!(cx.world, |_p: &mut Pad| { if first { first = false; f(); } }); }
        (K_ITER, true, false, false) => { let mut first = true; ecs_iter_borrow!(cx.world, |_e: &Entity<ArchOther>, _p: &P| { if first { first = false; f(); } }); }
        (K_ITER, true, false, true) => { let mut first = true; ecs_iter_borrow!(cx.world, |_e: &Entity<ArchOther>, _p: &mut P| { if first { first = false; f(); } }); }
        (K_ITER, true, true, false) => { let mut first = true; ecs_iter_borrow!(cx.world, |_q: &Q| { if first { first = false; f(); } }); }
        _ => { let mut first = true; ecs_iter_borrow!(cx.world, |_q: &mut Q| { if first { first = false; f(); } }); }
    }
}

fn any_access(kinds: u8) -> Access {
    // `kinds`: bit k set = kind k allowed
    let kind = sym::any_u8();
    sym::assume(kind <= K_FINDD && (kinds >> kind) & 1 == 1);
    Access { kind, mutable: sym::any_bool(), other_arch: sym::any_bool(), second_col: sym::any_bool(), second_entity: sym::any_bool() }
}

/// Two full archetypes (2 entities each) in an arbitrary Inv arrangement.
fn world2() -> (W3, Model<2>, Model<2>) {
    let mt: Model<2> = Model::any_inv();
    let mo: Model<2> = Model::any_inv();
    sym::assume(mt.len == 2 && mo.len == 2);
    let mut world = W3::both(2, 2);
    load_into::<Tri, 2>(&mut world, &mt);
    load_into::<Other, 2>(&mut world, &mo);
    (world, mt, mo)
}

fn ctx<'a>(world: &'a W3, mt: &'a Model<2>, mo: &'a Model<2>) -> Ctx<'a> {
    let et = [world.arch_tri.entities()[0], world.arch_tri.entities()[1]];
    let eo = [world.arch_other.entities()[0], world.arch_other.entities()[1]];
    let dt = [world.arch_tri.to_direct(et[0]).unwrap(), world.arch_tri.to_direct(et[1]).unwrap()];
    let dov = [world.arch_other.to_direct(eo[0]).unwrap().into_any(), world.arch_other.to_direct(eo[1]).unwrap().into_any()];
    Ctx { world, et, eo, dt, dov, mt, mo }
}

/// A concrete outer access (kind, mutability, archetype, column; entity symbolic) held open
/// while an ARBITRARY non-conflicting inner access is made: it succeeds and both sides observe
/// the right values. The solver decides all inner cells at once.
pub const ALL_BUT_FINDD: u8 = 0b01_1111;
pub const SLICE_AND_FINDD: u8 = 0b10_0001;

pub fn must_not_panic(okind: u8, omut: bool, oarch: bool, ocol: bool) {
    must_not_panic_k(okind, omut, oarch, ocol, ALL_BUT_FINDD)
}

pub fn must_not_panic_k(okind: u8, omut: bool, oarch: bool, ocol: bool, inner_kinds: u8) {
    let (world, mt, mo) = world2();
    let cx = ctx(&world, &mt, &mo);
    let o = Access { kind: okind, mutable: omut, other_arch: oarch, second_col: ocol, second_entity: sym::any_bool() };
    let i = any_access(inner_kinds);
    sym::assume(!conflict(&o, &i));
    with_outer(&cx, &o, || inner(&cx, &i));
    cover!(omut || (i.kind != K_CLONE && o.other_arch == i.other_arch && o.second_col == i.second_col && !i.mutable), "shared + shared on the same column");
    cover!(!omut || (i.kind != K_CLONE && o.other_arch == i.other_arch && o.second_col != i.second_col && i.mutable), "mutable + mutable on different columns of one archetype");
    cover!(!omut || ocol || (i.kind != K_CLONE && o.other_arch != i.other_arch && !i.second_col && i.mutable), "mutable + mutable on the same component TYPE in different archetypes");
    cover!(omut || inner_kinds != ALL_BUT_FINDD || i.kind == K_CLONE, "clone while a column is borrowed shared");
    cover!(inner_kinds != ALL_BUT_FINDD || (i.kind == K_ITER && i.mutable), "inner ecs_iter_borrow! with a mutable parameter");
    cover!(inner_kinds == ALL_BUT_FINDD || (i.kind == K_FINDD && !i.mutable && o.other_arch == i.other_arch && o.second_col == i.second_col) || omut, "shared ecs_find_borrow! by a direct key next to a shared access to the same column");
    std::mem::forget(world);
}

/// One conflicting cell: the inner access must panic (core::cell::panic_already_*), for both
/// entity choices; nothing after it is reachable.
pub fn must_panic(okind: u8, omut: bool, ikind: u8, imut: bool, other_arch: bool, second_col: bool) {
    let (world, mt, mo) = world2();
    let cx = ctx(&world, &mt, &mo);
    let o = Access { kind: okind, mutable: omut, other_arch, second_col, second_entity: sym::any_bool() };
    let i = Access { kind: ikind, mutable: imut, other_arch, second_col, second_entity: sym::any_bool() };
    assert!(conflict(&o, &i), "HARNESS-BOUND: cell is not a conflict");
    with_outer(&cx, &o, || {
        inner(&cx, &i);
        cover!(true, "UNREACHABLE: aliasing access was granted");
    });
    std::mem::forget(world);
}

/// A borrow ends when its guard or closure call ends: after the (concrete) outer access is
/// over, every formerly conflicting inner access succeeds (all conflicting cells at once).
pub fn released_after(okind: u8, omut: bool, oarch: bool, ocol: bool) {
    let (world, mt, mo) = world2();
    let cx = ctx(&world, &mt, &mo);
    let o = Access { kind: okind, mutable: omut, other_arch: oarch, second_col: ocol, second_entity: sym::any_bool() };
    let i = any_access(ALL_BUT_FINDD);
    sym::assume(conflict(&o, &i));
    with_outer(&cx, &o, || {});
    inner(&cx, &i);
    cover!(!omut || i.kind == K_CLONE, "clone after a mutable borrow ended");
    cover!(i.kind == K_SLICE && i.mutable, "mutable slice borrow after the outer access ended");
    std::mem::forget(world);
}

macro_rules! ok_cells {
    ($( $name:ident: $ok:expr, $om:expr, $oa:expr, $sc:expr; )*) => {
        $( harness! { fn $name() unwind(4) { must_not_panic($ok, $om, $oa, $sc) } } )*
    };
}
macro_rules! released_cells {
    ($( $name:ident: $ok:expr, $om:expr, $oa:expr, $sc:expr; )*) => {
        $( harness! { fn $name() unwind(4) { released_after($ok, $om, $oa, $sc) } } )*
    };
}

// (outer kind, outer mutable, other archetype?, second column?)
ok_cells! {
    c11_ok_slice_s_tri_p: K_SLICE, false, false, false;
    c11_ok_slice_m_tri_p: K_SLICE, true, false, false;
    c11_ok_slice_m_tri_pad: K_SLICE, true, false, true;
    c11_ok_slice_s_other_q: K_SLICE, false, true, true;
    c11_ok_slice_m_other_p: K_SLICE, true, true, false;
    c11_ok_comp_s_tri_pad: K_COMP, false, false, true;
    c11_ok_comp_m_tri_p: K_COMP, true, false, false;
    c11_ok_comp_m_other_q: K_COMP, true, true, true;
    c11_ok_comp_s_other_p: K_COMP, false, true, false;
    c11_ok_find_s_tri_p: K_FIND, false, false, false;
    c11_ok_find_m_tri_pad: K_FIND, true, false, true;
    c11_ok_find_m_other_p: K_FIND, true, true, false;
    c11_ok_find_s_other_q: K_FIND, false, true, true;
    c11_ok_iter_s_tri_pad: K_ITER, false, false, true;
    c11_ok_iter_m_tri_p: K_ITER, true, false, false;
    c11_ok_iter_m_other_q: K_ITER, true, true, true;
    c11_ok_iter_s_other_p: K_ITER, false, true, false;
}

macro_rules! ok_cells_k {
    ($( $name:ident: $ok:expr, $om:expr, $oa:expr, $sc:expr, $k:expr; )*) => {
        $( harness! { fn $name() unwind(4) { must_not_panic_k($ok, $om, $oa, $sc, $k) } } )*
    };
}
// direct-key lookups: outer ecs_find_borrow! keyed by EntityDirect<ArchTri> / EntityDirectAny with inner slice
// or direct-key accesses; and inner direct-key lookups under the other kinds of outer access
ok_cells_k! {
    c11_ok_findd_s_tri_p: K_FINDD, false, false, false, SLICE_AND_FINDD;
    c11_ok_findd_m_other_q: K_FINDD, true, true, true, SLICE_AND_FINDD;
    c11_ok_findd_s_other_p: K_FINDD, false, true, false, SLICE_AND_FINDD;
    c11_ok_slice_s_tri_p_findd: K_SLICE, false, false, false, SLICE_AND_FINDD;
    c11_ok_iter_s_other_p_findd: K_ITER, false, true, false, SLICE_AND_FINDD;
    c11_ok_comp_s_other_p_findd: K_COMP, false, true, false, SLICE_AND_FINDD;
}

released_cells! {
    c11_released_slice_m_tri_p: K_SLICE, true, false, false;
    c11_released_comp_m_other_q: K_COMP, true, true, true;
    c11_released_find_m_tri_pad: K_FIND, true, false, true;
    c11_released_iter_m_other_p: K_ITER, true, true, false;
    c11_released_slice_s_tri_pad: K_SLICE, false, false, true;
    c11_released_find_s_other_p: K_FIND, false, true, false;
}

macro_rules! panic_cells {
    ($( $name:ident: $ok:expr, $om:expr, $ik:expr, $im:expr, $oa:expr, $sc:expr; )*) => {
        $( harness! { fn $name() unwind(4) { must_panic($ok, $om, $ik, $im, $oa, $sc) } } )*
    };
}

// (outer kind, outer mut, inner kind, inner mut, other archetype?, second column?)
panic_cells! {
    c11_panic_slice_m_slice_s: K_SLICE, true, K_SLICE, false, false, false;
    c11_panic_slice_s_slice_m: K_SLICE, false, K_SLICE, true, false, true;
    c11_panic_slice_m_slice_m: K_SLICE, true, K_SLICE, true, true, false;
    c11_panic_slice_m_comp_s: K_SLICE, true, K_COMP, false, false, true;
    c11_panic_slice_s_comp_m: K_SLICE, false, K_COMP, true, true, true;
    c11_panic_slice_m_find_s: K_SLICE, true, K_FIND, false, false, false;
    c11_panic_slice_s_find_m: K_SLICE, false, K_FIND, true, false, false;
    c11_panic_slice_m_iter_s: K_SLICE, true, K_ITER, false, true, false;
    c11_panic_slice_s_iter_m: K_SLICE, false, K_ITER, true, false, true;
    c11_panic_slice_m_clone: K_SLICE, true, K_CLONE, false, false, false;
    c11_panic_comp_m_slice_s: K_COMP, true, K_SLICE, false, false, false;
    c11_panic_comp_s_slice_m: K_COMP, false, K_SLICE, true, true, false;
    c11_panic_comp_m_comp_m: K_COMP, true, K_COMP, true, false, true;
    c11_panic_comp_m_comp_s: K_COMP, true, K_COMP, false, false, false;
    c11_panic_comp_s_comp_m: K_COMP, false, K_COMP, true, false, false;
    c11_panic_comp_m_find_s: K_COMP, true, K_FIND, false, true, true;
    c11_panic_comp_s_find_m: K_COMP, false, K_FIND, true, false, true;
    c11_panic_comp_m_iter_m: K_COMP, true, K_ITER, true, false, false;
    c11_panic_comp_s_iter_m: K_COMP, false, K_ITER, true, true, false;
    c11_panic_comp_m_clone: K_COMP, true, K_CLONE, false, true, true;
    c11_panic_find_m_slice_s: K_FIND, true, K_SLICE, false, false, false;
    c11_panic_find_s_slice_m: K_FIND, false, K_SLICE, true, false, true;
    c11_panic_find_m_comp_s: K_FIND, true, K_COMP, false, true, false;
    c11_panic_find_s_comp_m: K_FIND, false, K_COMP, true, false, false;
    c11_panic_find_m_find_m: K_FIND, true, K_FIND, true, false, false;
    c11_panic_find_m_find_s: K_FIND, true, K_FIND, false, false, true;
    c11_panic_find_s_find_m: K_FIND, false, K_FIND, true, true, true;
    c11_panic_find_m_iter_s: K_FIND, true, K_ITER, false, false, false;
    c11_panic_find_s_iter_m: K_FIND, false, K_ITER, true, false, false;
    c11_panic_find_m_clone: K_FIND, true, K_CLONE, false, false, true;
    c11_panic_iter_m_slice_s: K_ITER, true, K_SLICE, false, false, true;
    c11_panic_iter_s_slice_m: K_ITER, false, K_SLICE, true, false, false;
    c11_panic_iter_m_comp_m: K_ITER, true, K_COMP, true, false, false;
    c11_panic_iter_s_comp_m: K_ITER, false, K_COMP, true, true, true;
    c11_panic_iter_m_find_s: K_ITER, true, K_FIND, false, true, false;
    c11_panic_iter_s_find_m: K_ITER, false, K_FIND, true, false, true;
    c11_panic_iter_m_iter_m: K_ITER, true, K_ITER, true, false, false;
    c11_panic_iter_m_iter_s: K_ITER, true, K_ITER, false, false, true;
    c11_panic_iter_s_iter_m: K_ITER, false, K_ITER, true, true, false;
    c11_panic_iter_m_clone: K_ITER, true, K_CLONE, false, true, false;
    c11_panic_findd_m_findd_s: K_FINDD, true, K_FINDD, false, false, false;
    c11_panic_findd_s_slice_m: K_FINDD, false, K_SLICE, true, true, false;
    c11_panic_iter_s_findd_m: K_ITER, false, K_FINDD, true, true, true;
    c11_panic_findd_m_clone: K_FINDD, true, K_CLONE, false, false, true;
}

