//! C05 (E1 corpus) — real queries over real worlds, each decided over all states within bounds:
//! the closure runs for exactly the entities of the archetypes that satisfy the parameter list,
//! OneOf binds the archetype's own column, find on a live entity of an unmatched archetype is
//! None and never runs the closure. (The matching rule for ALL declarations/queries within
//! bounds is decided by E2 on the MIR of `bind_query_params`.)

use crate::model::*;
use crate::steps::*;
use crate::sym;
use crate::{cover, harness};
use gecs::prelude::*;

pub mod wq {
    use gecs::prelude::*;
    #[derive(Clone, Copy, PartialEq)]
    pub struct CA(pub u8);
    #[derive(Clone, Copy, PartialEq)]
    pub struct CB(pub u8);
    #[derive(Clone, Copy, PartialEq)]
    pub struct CC(pub u8);
    #[derive(Clone, Copy, PartialEq)]
    pub struct CD(pub u8);

    // overlapping component sets
    ecs_world! {
        ecs_name!(WQ);
        ecs_archetype!(Q0, CA, CB);        // {A, B}
        ecs_archetype!(Q1, CB, CC);        // {B, C}
        ecs_archetype!(Q2, CA, CC, CD);    // {A, C, D}
        ecs_archetype!(Q3, CD);            // {D}
    }
}
use wq::*;

/// Populations 0..=2 per archetype (symbolic), values tagged with the archetype index so a
/// column mix-up is visible: column value = 16 * archetype + 4 * column-letter + entity.
fn populate() -> (WQ, [usize; 4]) {
    let mut world = WQ::with_capacity(WQCapacity { q_0: 2, q_1: 2, q_2: 2, q_3: 2 });
    let mut n = [0usize; 4];
    let mut a = 0;
    while a < 4 {
        n[a] = sym::any_usize();
        sym::assume(n[a] <= 2);
        a += 1;
    }
    let mut i = 0u8;
    while i < 2 {
        if (i as usize) < n[0] { world.create::<Q0>((CA(0 + 0 + i), CB(0 + 4 + i))); }
        if (i as usize) < n[1] { world.create::<Q1>((CB(16 + 4 + i), CC(16 + 8 + i))); }
        if (i as usize) < n[2] { world.create::<Q2>((CA(32 + 0 + i), CC(32 + 8 + i), CD(32 + 12 + i))); }
        if (i as usize) < n[3] { world.create::<Q3>((CD(48 + 12 + i),)); }
        i += 1;
    }
    (world, n)
}

struct Seen {
    per_arch: [usize; 4],
    calls: usize,
}
impl Seen {
    fn new() -> Self {
        Seen { per_arch: [0; 4], calls: 0 }
    }
    /// `v` is the value of a column with letter index `col` (A=0..D=3) handed to the closure
    /// for an entity whose handle carries archetype id `id`.
    fn see(&mut self, id: u8, col: u8, v: u8) {
        assert!(id < 4, "closure ran for an undeclared archetype");
        assert!(v >> 4 == id, "parameter bound to another archetype's column");
        assert!((v >> 2) & 3 == col, "parameter bound to another component's column of the archetype");
        self.per_arch[id as usize] += 1;
        self.calls += 1;
    }
    fn expect(&self, n: &[usize; 4], matched: [bool; 4], per_entity: usize) {
        let mut a = 0;
        while a < 4 {
            assert!(self.per_arch[a] == if matched[a] { n[a] * per_entity } else { 0 }, "closure ran for an archetype that does not satisfy the query, or skipped one that does");
            a += 1;
        }
    }
}

pub fn corpus(q: u8) {
    let (mut world, n) = populate();
    let mut s = Seen::new();
    match q {
        0 => {
            // single component present in {Q0, Q2}
            ecs_iter!(world, |e: &EntityAny, a: &CA| s.see(e.archetype_id(), 0, a.0));
            s.expect(&n, [true, false, true, false], 1);
        }
        1 => {
            // two components: only Q2 has both A and C
            ecs_iter!(world, |e: &EntityAny, a: &CA, c: &CC| { s.see(e.archetype_id(), 0, a.0); s.see(e.archetype_id(), 2, c.0); });
            s.expect(&n, [false, false, true, false], 2);
        }
        2 => {
            // OneOf<A, B... > : Q0 has both A and B -> ambiguous, so use OneOf<CC, CD> on {Q1:C, Q3:D}; Q2 has both -> would be ambiguous
            // => OneOf<CB, CD>: Q0:B, Q1:B, Q2:D, Q3:D
            ecs_iter_borrow!(world, |e: &EntityAny, x: &OneOf<CB, CD>| {
                let id = e.archetype_id();
                let col = if id == 0 || id == 1 { 1 } else { 3 };
                s.see(id, col, x.0);
            });
            s.expect(&n, [true, true, true, true], 1);
        }
        3 => {
            // component + OneOf: C present in {Q1, Q2}; OneOf<CB, CD>: Q1:B, Q2:D
            ecs_iter!(world, |e: &EntityAny, c: &CC, x: &mut OneOf<CB, CD>| {
                let id = e.archetype_id();
                s.see(id, 2, c.0);
                s.see(id, if id == 1 { 1 } else { 3 }, x.0);
            });
            s.expect(&n, [false, true, true, false], 2);
        }
        4 => {
            // typed entity parameter restricts to the named archetype even if others have the component
            ecs_iter!(world, |e: &Entity<Q2>, d: &CD| s.see(e.into_any().archetype_id(), 3, d.0));
            s.expect(&n, [false, false, true, false], 1);
        }
        5 => {
            // wildcard entity + direct-any parameters in any order do not restrict
            ecs_iter_borrow!(world, |d: &EntityDirectAny, b: &CB, e: &Entity<_>| { assert!(d.archetype_id() == e.into_any().archetype_id()); s.see(e.into_any().archetype_id(), 1, b.0); });
            s.expect(&n, [true, true, false, false], 1);
        }
        6 => {
            // OneOf FIRST, plain component after it (the order of the closure's parameters is the user's)
            ecs_iter!(world, |x: &OneOf<CB, CD>, e: &EntityAny, c: &CC| {
                let id = e.archetype_id();
                s.see(id, 2, c.0);
                s.see(id, if id == 1 { 1 } else { 3 }, x.0);
            });
            s.expect(&n, [false, true, true, false], 2);
        }
        7 => {
            // OneOf in the MIDDLE, mutable, entity parameter last
            ecs_iter_borrow!(world, |c: &CC, x: &mut OneOf<CB, CD>, e: &EntityAny| {
                let id = e.archetype_id();
                s.see(id, 2, c.0);
                s.see(id, if id == 1 { 1 } else { 3 }, x.0);
            });
            s.expect(&n, [false, true, true, false], 2);
        }
        _ => {}
    }
    cover!(n[0] == 2 && n[1] == 0 && n[2] == 1 && n[3] == 2, "mixed populations incl. an empty matched archetype");
    cover!(n[0] == 0 && n[1] == 0 && n[2] == 0 && n[3] == 0, "all empty");
    std::mem::forget(world);
}

pub mod wq3 {
    use gecs::prelude::*;
    #[derive(Clone, Copy, PartialEq)]
    pub struct X0(pub u8);
    #[derive(Clone, Copy, PartialEq)]
    pub struct X1(pub u8);
    #[derive(Clone, Copy, PartialEq)]
    pub struct X2(pub u8);
    #[derive(Clone, Copy, PartialEq)]
    pub struct X3(pub u8);

    // every archetype owns exactly one of X0..X2 (declared at different positions) plus X3
    ecs_world! {
        ecs_name!(WQ3);
        ecs_archetype!(R0, X0, X3);
        ecs_archetype!(R1, X3, X1);
        ecs_archetype!(R2, X2, X3);
    }
}

/// ecs_find! / ecs_find_borrow!: on a live entity of an unmatched archetype the result is None
/// and the closure never runs; on a matched one it runs once with that archetype's own columns.
pub fn find_corpus(borrow: bool) {
    let (mut world, n) = populate();
    let a = sym::any_u8();
    sym::assume(a < 4 && n[a as usize] > 0);
    let h: EntityAny = match a {
        0 => world.q_0.entities()[0].into_any(),
        1 => world.q_1.entities()[0].into_any(),
        2 => world.q_2.entities()[0].into_any(),
        _ => world.q_3.entities()[0].into_any(),
    };
    let mut calls = 0;
    // {C} ∩ OneOf<B,D>: matches Q1 (B) and Q2 (D); Q0 and Q3 lack C
    let r = if borrow {
        ecs_find_borrow!(world, h, |c: &CC, x: &OneOf<CB, CD>| { calls += 1; (c.0, x.0) })
    } else {
        ecs_find!(world, h, |c: &CC, x: &OneOf<CB, CD>| { calls += 1; (c.0, x.0) })
    };
    match a {
        1 => assert!(r == Some((16 + 8, 16 + 4)) && calls == 1, "find on a matched archetype (Q1: C, OneOf->B)"),
        2 => assert!(r == Some((32 + 8, 32 + 12)) && calls == 1, "find on a matched archetype (Q2: C, OneOf->D)"),
        _ => assert!(r.is_none() && calls == 0, "find on a live entity of an unmatched archetype must be None without running the closure"),
    }
    // typed entity parameter of another archetype: never matches
    let mut calls2 = 0;
    let r2 = ecs_find!(world, h, |_e: &Entity<Q3>, d: &CD| { calls2 += 1; d.0 });
    assert!(r2.is_some() == (a == 3) && calls2 == (a == 3) as usize, "find with Entity<Q3> parameter");
    cover!(a == 0, "live entity of an unmatched archetype");
    cover!(a == 2, "live entity of a matched archetype");
    std::mem::forget(world);
}

/// ecs_iter_destroy! over {C} ∩ OneOf<B, D>: destroys exactly Q1's and Q2's entities.
pub fn destroy_corpus() {
    let (mut world, n) = populate();
    let mut s = Seen::new();
    ecs_iter_destroy!(world, |e: &EntityAny, _c: &CC, x: &OneOf<CB, CD>| {
        let id = e.archetype_id();
        s.see(id, if id == 1 { 1 } else { 3 }, x.0);
        EcsStepDestroy::ContinueDestroy
    });
    s.expect(&n, [false, true, true, false], 1);
    assert!(world.q_0.len() == n[0] && world.q_1.len() == 0 && world.q_2.len() == 0 && world.q_3.len() == n[3], "ecs_iter_destroy! touched an archetype the query does not match");
    cover!(n[1] == 2 && n[2] == 2 && n[0] == 1, "both matched archetypes full");
    std::mem::forget(world);
}

harness! { fn c05_iter_single_component() unwind(6) { corpus(0) } }
harness! { fn c05_iter_two_components() unwind(6) { corpus(1) } }
harness! { fn c05_iter_borrow_one_of() unwind(6) { corpus(2) } }
harness! { fn c05_iter_component_and_one_of() unwind(6) { corpus(3) } }
harness! { fn c05_iter_typed_entity() unwind(6) { corpus(4) } }
harness! { fn c05_iter_borrow_wild_and_direct() unwind(6) { corpus(5) } }
harness! { fn c05_iter_one_of_first() unwind(6) { corpus(6) } }
harness! { fn c05_iter_borrow_one_of_middle() unwind(6) { corpus(7) } }
harness! { fn c05_find_unmatched() unwind(6) { find_corpus(false) } }
harness! { fn c05_find_borrow_unmatched() unwind(6) { find_corpus(true) } }
harness! { fn c05_iter_destroy_one_of() unwind(6) { destroy_corpus() } }

pub mod three {
    use super::wq3::*;
    use crate::sym;
    use crate::{cover, harness};
    use gecs::prelude::*;

    /// Arity-3 OneOf at every position of the parameter list, through all five macros: the OneOf
    /// parameter is bound to the archetype's own member column, the plain parameter to its own.
    pub fn corpus3(q: u8) {
        let mut world = WQ3::with_capacity(WQ3Capacity { r_0: 1, r_1: 1, r_2: 1 });
        let mut n = [0usize; 3];
        let mut a = 0;
        while a < 3 {
            n[a] = sym::any_usize();
            sym::assume(n[a] <= 1);
            a += 1;
        }
        let mut hs: [Option<EntityAny>; 3] = [None; 3];
        if n[0] == 1 { hs[0] = Some(world.create::<R0>((X0(0 + 0), X3(0 + 12))).into_any()); }
        if n[1] == 1 { hs[1] = Some(world.create::<R1>((X3(16 + 12), X1(16 + 4))).into_any()); }
        if n[2] == 1 { hs[2] = Some(world.create::<R2>((X2(32 + 8), X3(32 + 12))).into_any()); }
        let mut calls = [0usize; 3];
        // value v handed for column letter `col` of an entity of archetype `id`
        let mut see = |id: u8, col: u8, v: u8| {
            assert!(id < 3, "closure ran for an undeclared archetype");
            assert!(v >> 4 == id, "parameter bound to another archetype's column");
            assert!((v >> 2) & 3 == col, "parameter bound to another component's column of the archetype (parameter order / OneOf member)");
            calls[id as usize] += 1;
        };
        match q {
            0 => ecs_iter!(world, |x: &OneOf<X0, X1, X2>, k: &X3, e: &EntityAny| { let id = e.archetype_id(); see(id, id, x.0); see(id, 3, k.0); }),
            1 => ecs_iter_borrow!(world, |k: &X3, x: &mut OneOf<X2, X0, X1>, e: &EntityAny| { let id = e.archetype_id(); see(id, id, x.0); see(id, 3, k.0); }),
            2 => ecs_iter!(world, |e: &EntityAny, x: &mut OneOf<X1, X2, X0>, k: &mut X3| { let id = e.archetype_id(); see(id, id, x.0); see(id, 3, k.0); }),
            3 => {
                let mut a = 0;
                while a < 3 {
                    if let Some(h) = hs[a] {
                        let r = ecs_find!(world, h, |x: &OneOf<X0, X1, X2>, k: &X3| (x.0, k.0));
                        assert!(r.is_some(), "ecs_find! on a live entity of a matched archetype returned None");
                        see(a as u8, a as u8, r.unwrap().0);
                        see(a as u8, 3, r.unwrap().1);
                    }
                    a += 1;
                }
            }
            4 => {
                let mut a = 0;
                while a < 3 {
                    if let Some(h) = hs[a] {
                        let r = ecs_find_borrow!(world, h, |k: &X3, x: &OneOf<X2, X1, X0>| (x.0, k.0));
                        assert!(r.is_some(), "ecs_find_borrow! on a live entity of a matched archetype returned None");
                        see(a as u8, a as u8, r.unwrap().0);
                        see(a as u8, 3, r.unwrap().1);
                    }
                    a += 1;
                }
            }
            _ => ecs_iter_destroy!(world, |x: &OneOf<X0, X1, X2>, e: &EntityAny, k: &X3| {
                let id = e.archetype_id();
                see(id, id, x.0);
                see(id, 3, k.0);
                EcsStepDestroy::Continue
            }),
        }
        let mut a = 0;
        while a < 3 {
            assert!(calls[a] == 2 * n[a], "closure ran for an archetype another number of times than it has entities");
            a += 1;
        }
        cover!(n[0] == 1 && n[1] == 1 && n[2] == 1, "all three archetypes populated");
        cover!(n[0] == 0 && n[1] == 1 && n[2] == 0, "only the middle archetype populated");
        std::mem::forget(world);
    }

    harness! { fn c05_one_of3_iter_first() unwind(5) { corpus3(0) } }
    harness! { fn c05_one_of3_iter_borrow_middle() unwind(5) { corpus3(1) } }
    harness! { fn c05_one_of3_iter_mut_between() unwind(5) { corpus3(2) } }
    harness! { fn c05_one_of3_find() unwind(5) { corpus3(3) } }
    harness! { fn c05_one_of3_find_borrow() unwind(5) { corpus3(4) } }
    harness! { fn c05_one_of3_iter_destroy() unwind(5) { corpus3(5) } }

    /// Several OneOf parameters in ONE query, used purely as filters and therefore all named `_`
    /// (the only parameter name a closure may repeat): each filter constrains the match set on its
    /// own. `OneOf<X0, X1>` holds for R0 and R1, `OneOf<X1, X2>` for R1 and R2: only R1 has both.
    pub fn two_filters(q: u8) {
        let mut world = WQ3::with_capacity(WQ3Capacity { r_0: 1, r_1: 1, r_2: 1 });
        let mut n = [0usize; 3];
        let mut a = 0;
        while a < 3 {
            n[a] = sym::any_usize();
            sym::assume(n[a] <= 1);
            a += 1;
        }
        let mut hs: [Option<EntityAny>; 3] = [None; 3];
        if n[0] == 1 { hs[0] = Some(world.create::<R0>((X0(0 + 0), X3(0 + 12))).into_any()); }
        if n[1] == 1 { hs[1] = Some(world.create::<R1>((X3(16 + 12), X1(16 + 4))).into_any()); }
        if n[2] == 1 { hs[2] = Some(world.create::<R2>((X2(32 + 8), X3(32 + 12))).into_any()); }
        let mut calls = [0usize; 3];
        match q {
            0 => ecs_iter!(world, |_: &OneOf<X0, X1>, _: &OneOf<X1, X2>, e: &EntityAny, k: &X3| { assert!(k.0 >> 4 == e.archetype_id()); calls[e.archetype_id() as usize] += 1; }),
            1 => ecs_iter_borrow!(world, |e: &EntityAny, _: &OneOf<X1, X2>, k: &X3, _: &OneOf<X0, X1>| { assert!(k.0 >> 4 == e.archetype_id()); calls[e.archetype_id() as usize] += 1; }),
            2 => {
                let mut a = 0;
                while a < 3 {
                    if let Some(h) = hs[a] {
                        let r = ecs_find!(world, h, |_: &OneOf<X0, X1>, _: &OneOf<X1, X2>, k: &X3| k.0);
                        assert!(r.is_some() == (a == 1), "ecs_find! with two anonymous OneOf filters: Some exactly for the archetype satisfying both");
                        if r.is_some() { calls[a] += 1; }
                        let r = ecs_find_borrow!(world, h, |_: &OneOf<X1, X2>, k: &X3, _: &OneOf<X0, X1>| k.0);
                        assert!(r.is_some() == (a == 1), "ecs_find_borrow! with two anonymous OneOf filters");
                    }
                    a += 1;
                }
            }
            _ => ecs_iter_destroy!(world, |_: &OneOf<X0, X1>, e: &EntityAny, _: &OneOf<X1, X2>| { calls[e.archetype_id() as usize] += 1; EcsStepDestroy::ContinueDestroy }),
        }
        assert!(calls[0] == 0 && calls[2] == 0 && calls[1] == n[1], "a query with two anonymous OneOf filters acts on exactly the archetypes satisfying BOTH");
        if q == 3 {
            assert!(world.r_0.len() == n[0] && world.r_1.len() == 0 && world.r_2.len() == n[2], "ecs_iter_destroy! with two anonymous OneOf filters destroyed in an archetype that satisfies only one");
        }
        cover!(n[0] == 1 && n[1] == 1 && n[2] == 1, "all three archetypes populated");
        std::mem::forget(world);
    }

    harness! { fn c05_two_filters_iter() unwind(5) { two_filters(0) } }
    harness! { fn c05_two_filters_iter_borrow() unwind(5) { two_filters(1) } }
    harness! { fn c05_two_filters_find() unwind(5) { two_filters(2) } }
    harness! { fn c05_two_filters_iter_destroy() unwind(5) { two_filters(3) } }
}
