//! C07 — ecs_iter_destroy! visits each entity once and destroys exactly the flagged ones.
//! Arbitrary Inv states of both W3 archetypes x an arbitrary decision table (all 4^n functions
//! in one query). Also carries the C09 obligation for direct handles minted by the loop.

use crate::model::*;
use crate::steps::*;
use crate::sym;
use crate::worlds::w3::*;
use crate::{cover, harness};
use gecs::prelude::*;

#[derive(Clone, Copy, PartialEq)]
pub enum Dec {
    Continue,
    Destroy,
    Break,
    BreakDestroy,
}

fn any_dec() -> Dec {
    match sym::any_u8() & 3 {
        0 => Dec::Continue,
        1 => Dec::Destroy,
        2 => Dec::Break,
        _ => Dec::BreakDestroy,
    }
}

impl Dec {
    fn step(self) -> EcsStepDestroy {
        match self {
            Dec::Continue => EcsStepDestroy::Continue,
            Dec::Destroy => EcsStepDestroy::ContinueDestroy,
            Dec::Break => EcsStepDestroy::Break,
            Dec::BreakDestroy => EcsStepDestroy::BreakDestroy,
        }
    }
    fn destroys(self) -> bool {
        self == Dec::Destroy || self == Dec::BreakDestroy
    }
    fn breaks(self) -> bool {
        self == Dec::Break || self == Dec::BreakDestroy
    }
}

/// Entity identity = its `val`: Tri entities have val = dense index, Other entities N1 + index.
/// `T` must be N1 + N2.
pub struct Run<const N1: usize, const N2: usize, const T: usize> {
    pub dec: [Dec; T],
    pub visits: [u8; T],
    pub step_of: [usize; T],
    pub minted: [Option<EntityDirectAny>; T],
    pub steps: usize,
    pub broke: bool,
}

impl<const N1: usize, const N2: usize, const T: usize> Run<N1, N2, T> {
    pub fn any() -> Self {
        assert!(T == N1 + N2);
        let mut dec = [Dec::Continue; T];
        let mut i = 0;
        while i < T {
            dec[i] = any_dec();
            i += 1;
        }
        Run { dec, visits: [0; T], step_of: [0; T], minted: [None; T], steps: 0, broke: false }
    }

    pub fn visit(&mut self, id: u8, raw: (u32, u32), mt: &Model<N1>, mo: &Model<N2>, direct: Option<EntityDirectAny>) -> EcsStepDestroy {
        let id = id as usize;
        assert!(id < T, "closure was handed a component value no entity has");
        assert!(!self.broke, "closure ran again after Break/BreakDestroy");
        // the handle handed to the closure is the handle of the entity whose component it is
        if id < N1 {
            assert!(id < mt.len && raw == mt.handle_raw(Tri::ID, id), "closure paired a component with another entity's handle");
        } else {
            assert!(id - N1 < mo.len && raw == mo.handle_raw(Other::ID, id - N1), "closure paired a component with another entity's handle");
        }
        self.visits[id] += 1;
        assert!(self.visits[id] == 1, "an entity was visited twice");
        self.step_of[id] = self.steps;
        self.minted[id] = direct;
        self.steps += 1;
        if self.dec[id].breaks() {
            self.broke = true;
        }
        self.dec[id].step()
    }
}

fn setup<const N1: usize, const N2: usize>() -> (W3, Model<N1>, Model<N2>) {
    let mt: Model<N1> = Model::any_inv();
    let mo: Model<N2> = Model::any_inv();
    assume_no_overflow(&mt);
    assume_no_overflow(&mo);
    // up to N removals per archetype in one loop: keep the counters that far from overflow
    #[cfg(not(feature = "wrapping_version"))]
    {
        sym::assume(mt.version < u32::MAX - N1 as u32 && mo.version < u32::MAX - N2 as u32);
    }
    let mut i = 0;
    while i < N1 {
        sym::assume(mt.val[i] == i as u8);
        i += 1;
    }
    let mut i = 0;
    while i < N2 {
        sym::assume(mo.val[i] == (N1 + i) as u8);
        i += 1;
    }
    let mut world = W3::both(N1, N2);
    load_into::<Tri, N1>(&mut world, &mt);
    load_into::<Other, N2>(&mut world, &mo);
    (world, mt, mo)
}

/// Post-conditions common to all variants.
fn check_after<const N1: usize, const N2: usize, const T: usize>(
    world: &mut W3,
    mt: &Model<N1>,
    mo: &Model<N2>,
    run: &Run<N1, N2, T>,
    matched_tri: bool,
    matched_other: bool,
) {
    let pt: Model<N1> = read::<Tri, N1>(world);
    let po: Model<N2> = read::<Other, N2>(world);
    assert!(pt.inv() && po.inv(), "representation invariant broken by ecs_iter_destroy!");
    // every matching entity alive at loop start is visited exactly once unless a Break came first
    let live_total = (if matched_tri { mt.len } else { 0 }) + (if matched_other { mo.len } else { 0 });
    if !run.broke {
        assert!(run.steps == live_total, "not every live matching entity was visited although nothing broke the loop");
    }
    let mut destroyed_t = 0;
    let mut i = 0;
    while i < N1 {
        if i < mt.len {
            let (k, g) = mt.handle_raw(Tri::ID, i);
            let visited = run.visits[i] == 1;
            if !matched_tri {
                assert!(!visited, "closure ran for an archetype the query does not match");
            }
            let gone = visited && run.dec[i].destroys();
            let d = pt.lookup(Tri::ID, k, g);
            if gone {
                destroyed_t += 1;
                assert!(d.is_none(), "an entity flagged for destruction survived");
                assert!(!world.contains(EntityAny::from_raw((k, g)).ok().unwrap()), "destroyed entity still reachable through World::contains");
            } else {
                assert!(d.is_some(), "an entity that was not flagged was destroyed");
                let d = d.unwrap();
                assert!(pt.val[d] == mt.val[i] && pt.ok[d] && pt.aux[d] == mt.aux[i], "a survivor's components changed");
            }
        } else {
            assert!(run.visits[i] == 0);
        }
        i += 1;
    }
    assert!(pt.len + destroyed_t == mt.len, "len does not reflect the destructions");
    let mut destroyed_o = 0;
    let mut i = 0;
    while i < N2 {
        if i < mo.len {
            let (k, g) = mo.handle_raw(Other::ID, i);
            let visited = run.visits[N1 + i] == 1;
            if !matched_other {
                assert!(!visited, "closure ran for an archetype the query does not match");
            }
            let gone = visited && run.dec[N1 + i].destroys();
            let d = po.lookup(Other::ID, k, g);
            if gone {
                destroyed_o += 1;
                assert!(d.is_none(), "an entity flagged for destruction survived");
            } else {
                assert!(d.is_some(), "an entity that was not flagged was destroyed");
                let d = d.unwrap();
                assert!(po.val[d] == mo.val[i] && (po.aux[d] ^ mo.aux[i]) & 0xffff == 0, "a survivor's components changed");
            }
        } else {
            assert!(run.visits[N1 + i] == 0);
        }
        i += 1;
    }
    assert!(po.len + destroyed_o == mo.len, "len does not reflect the destructions");
    // generations of untouched positions are unchanged, destroyed ones advanced
    let mut p = 0;
    while p < N1 {
        if mt.slot_live(p) {
            let id = mt.slot_idx[p] as usize;
            if run.visits[id] == 1 && run.dec[id].destroys() {
                assert!(pt.slot_ver[p] != mt.slot_ver[p], "destroyed position kept its generation");
            } else {
                assert!(pt.slot_ver[p] == mt.slot_ver[p] && pt.slot_live(p), "surviving position changed");
            }
        } else {
            assert!(pt.slot_ver[p] == mt.slot_ver[p] && !pt.slot_live(p), "free position changed");
        }
        p += 1;
    }
}

/// Direct handles minted by the loop (C09): a handle minted at step j is, after the loop,
/// accepted iff no destruction happened in its archetype at a step >= j, and then it
/// designates the entity it was handed out for. (Visiting order is not assumed.)
fn check_minted<const N1: usize, const N2: usize, const T: usize>(world: &mut W3, run: &Run<N1, N2, T>, mt: &Model<N1>, mo: &Model<N2>) {
    let mut id = 0;
    while id < T {
        let in_tri = id < N1;
        if run.visits[id] == 1 {
            let d = run.minted[id].unwrap();
            // any destruction in the same archetype at this step or later?
            let mut later = false;
            let mut j = 0;
            while j < T {
                if (j < N1) == in_tri && run.visits[j] == 1 && run.dec[j].destroys() && run.step_of[j] >= run.step_of[id] {
                    later = true;
                }
                j += 1;
            }
            let got = ecs_find!(world, d, |p: &P| p.0);
            if later {
                assert!(got.is_none(), "a direct handle minted by ecs_iter_destroy! survived a later removal");
            } else {
                assert!(got == Some(id as u8), "a direct handle minted by ecs_iter_destroy! is not accepted although nothing was removed since it was handed out");
                assert!(world.contains(d), "minted direct handle rejected by World::contains");
            }
        }
        id += 1;
    }
}

/// Both archetypes matched through the shared component `P`.
pub fn destroy_shared<const N1: usize, const N2: usize, const T: usize>() {
    let (mut world, mt, mo) = setup::<N1, N2>();
    let mut run = Run::<N1, N2, T>::any();
    ecs_iter_destroy!(world, |e: &EntityAny, p: &P| run.visit(p.0, e.raw(), &mt, &mo, None));
    check_after(&mut world, &mt, &mo, &run, true, true);
    cover!(run.steps == N1 + N2 && !run.broke, "every entity of two full archetypes visited");
    cover!(run.broke && run.steps <= mt.len && mo.len > 0, "Break inside the first archetype, second one populated");
    cover!(N1 < 2 || (mt.len == N1 && run.dec[0].destroys() && run.dec[N1 - 1].destroys() && !run.broke), "first and last dense entity both destroyed");
    std::mem::forget(world);
}

/// The same pass run on a CLONE of an arbitrary state (the original is dropped from the picture):
/// the destroys the loop issues go through the clone's own slot table.
pub fn destroy_shared_on_clone<const N1: usize, const N2: usize, const T: usize>() {
    let (orig, mt, mo) = setup::<N1, N2>();
    let mut world = orig.clone();
    let mut run = Run::<N1, N2, T>::any();
    ecs_iter_destroy!(world, |e: &EntityAny, p: &P| run.visit(p.0, e.raw(), &mt, &mo, None));
    check_after(&mut world, &mt, &mo, &run, true, true);
    cover!(N1 < 2 || (mt.len == 1 && !mt.slot_live(0) && run.dec[0].destroys()), "destroyed an entity living in a later slot position of the clone");
    std::mem::forget(world);
    std::mem::forget(orig);
}

/// Only ArchTri matched; direct handles of each parameter flavour are minted and checked.
pub fn destroy_tri_direct<const N1: usize, const N2: usize, const T: usize>(flavour: u8) {
    let (mut world, mt, mo) = setup::<N1, N2>();
    let mut run = Run::<N1, N2, T>::any();
    match flavour {
        0 => ecs_iter_destroy!(world, |d: &EntityDirect<ArchTri>, e: &Entity<ArchTri>, p: &P| run.visit(p.0, e.into_any().raw(), &mt, &mo, Some(d.into_any()))),
        1 => ecs_iter_destroy!(world, |d: &EntityDirectAny, e: &EntityAny, p: &P, _z: &Zs| run.visit(p.0, e.raw(), &mt, &mo, Some(*d))),
        _ => ecs_iter_destroy!(world, |d: &EntityDirect<_>, e: &Entity<_>, p: &P, _pad: &mut Pad| run.visit(p.0, e.into_any().raw(), &mt, &mo, Some(d.into_any()))),
    }
    check_after(&mut world, &mt, &mo, &run, true, false);
    check_minted(&mut world, &run, &mt, &mo);
    cover!(N1 < 3 || (mt.len == N1 && !run.broke && run.dec[N1 - 1].destroys() && !run.dec[0].destroys() && !run.dec[1].destroys()), "first visited entity destroyed, later ones kept");
    cover!(run.steps == mt.len && mt.len == N1 && !run.dec[0].destroys(), "all visited");
    std::mem::forget(world);
}

/// Both archetypes matched, direct handles minted in both.
pub fn destroy_shared_direct<const N1: usize, const N2: usize, const T: usize>() {
    let (mut world, mt, mo) = setup::<N1, N2>();
    let mut run = Run::<N1, N2, T>::any();
    ecs_iter_destroy!(world, |d: &EntityDirectAny, e: &EntityAny, p: &P| run.visit(p.0, e.raw(), &mt, &mo, Some(*d)));
    check_after(&mut world, &mt, &mo, &run, true, true);
    check_minted(&mut world, &run, &mt, &mo);
    cover!(run.steps == N1 + N2 && !run.broke, "every entity of two full archetypes visited");
    std::mem::forget(world);
}

/// The closure may also return the two-valued `EcsStep` or `()`: nothing is ever destroyed,
/// `EcsStep::Break` stops the whole query without destroying the entity it breaks on.
pub fn plain_step_closures<const N1: usize, const N2: usize>() {
    let (mut world, mt, mo) = setup::<N1, N2>();
    let k = sym::any_usize();
    sym::assume(k <= N1 + N2 + 1);
    let mut calls = 0usize;
    ecs_iter_destroy!(world, |_p: &P| {
        calls += 1;
        if calls == k { EcsStep::Break } else { EcsStep::Continue }
    });
    let total = mt.len + mo.len;
    assert!(calls == if k >= 1 && k <= total { k } else { total }, "EcsStep::Break in ecs_iter_destroy! did not stop the whole query at once");
    let pt: Model<N1> = read::<Tri, N1>(&mut world);
    let po: Model<N2> = read::<Other, N2>(&mut world);
    assert_unchanged::<Tri, N1>(&mt, &pt);
    assert_unchanged::<Other, N2>(&mo, &po);
    let mut units = 0usize;
    ecs_iter_destroy!(world, |_p: &P| { units += 1; });
    assert!(units == total, "a closure returning () did not visit every entity");
    let pt2: Model<N1> = read::<Tri, N1>(&mut world);
    assert_unchanged::<Tri, N1>(&mt, &pt2);
    cover!(k >= 1 && k <= mt.len, "EcsStep::Break inside the first archetype");
    cover!(mt.len == N1 && mo.len == N2, "both archetypes full");
    std::mem::forget(world);
}

harness! { fn c07_plain_step_2_1() unwind(5) { plain_step_closures::<2, 1>() } }
harness! { fn c07_shared_2_1() unwind(5) { destroy_shared::<2, 1, 3>() } }
harness! { fn c07_shared_1_2() unwind(5) { destroy_shared::<1, 2, 3>() } }
harness! { fn c07_on_clone_2_1() unwind(5) { destroy_shared_on_clone::<2, 1, 3>() } }
harness! { fn c07_shared_2_2() unwind(6) { destroy_shared::<2, 2, 4>() } }
harness! { fn c07_shared_3_1() unwind(6) { destroy_shared::<3, 1, 4>() } }
harness! { fn c07_tri_direct_typed_3() unwind(6) { destroy_tri_direct::<3, 0, 3>(0) } }
harness! { fn c07_tri_direct_any_3() unwind(6) { destroy_tri_direct::<3, 0, 3>(1) } }
harness! { fn c07_tri_direct_wild_2() unwind(5) { destroy_tri_direct::<2, 1, 3>(2) } }
harness! { fn c07_tri_direct_wild_3() unwind(6) { destroy_tri_direct::<3, 0, 3>(2) } }
harness! { fn c07_shared_direct_2_1() unwind(5) { destroy_shared_direct::<2, 1, 3>() } }

pub mod small {
    use super::{any_dec, Dec};
    use crate::worlds::w1::*;
    use crate::{cover, harness};
    use gecs::prelude::*;

    /// Public API only, two entities created by real calls, all 4^2 decision functions, no assumption
    /// on the visiting order: small enough to stay decidable when the generated loop keeps scratch
    /// containers of its own (a deferred-destruction implementation).
    pub fn api_small() {
        let mut world = W1::with_capacity(W1Capacity { arch_foo: 2, arch_bar: 0 });
        let e = [world.create::<ArchFoo>((CA(0),)), world.create::<ArchFoo>((CA(1),))];
        let dec = [any_dec(), any_dec()];
        let mut visits = [0u8; 2];
        let mut order = [9usize; 2];
        let mut n = 0usize;
        let mut broke = false;
        ecs_iter_destroy!(world, |c: &CA| {
            let id = c.0 as usize;
            assert!(id < 2 && n < 2 && !broke, "closure ran again after Break/BreakDestroy, for a foreign value, or too often");
            visits[id] += 1;
            order[n] = id;
            n += 1;
            if dec[id].breaks() {
                broke = true;
            }
            dec[id].step()
        });
        assert!(n >= 1 && visits[0] <= 1 && visits[1] <= 1, "an entity was visited twice or nobody was visited");
        assert!(n == if dec[order[0]].breaks() { 1 } else { 2 }, "the pass ends exactly at the first Break/BreakDestroy");
        let mut live = 0;
        let mut id = 0;
        while id < 2 {
            let gone = visits[id] == 1 && dec[id].destroys();
            assert!(world.contains(e[id]) == !gone, "destroyed set differs from the set of entities the closure flagged");
            if !gone {
                live += 1;
                assert!(ecs_find!(world, e[id], |c: &CA| c.0) == Some(id as u8), "survivor lost its value");
            }
            id += 1;
        }
        assert!(world.arch_foo.len() == live, "len differs from the survivors");
        cover!(n == 2 && dec[order[0]].destroys() && dec[order[1]].breaks() && !dec[order[1]].destroys(), "first visited entity flagged, second answers Break");
        std::mem::forget(world);
    }

    harness! { fn c07_api_small() unwind(6) { api_small() } }
}
