//! Worlds declared with the real `ecs_world!` (so every harness runs real macro expansions).
//! One module per world because each declaration exports its own query macros.

/// W1: `ArchFoo` has a single `u8` column (Storage1, id 5); `ArchBar` has two columns
/// (Storage2, id 255) and shares `CA`. Ids are explicit and non-contiguous.
pub mod w1 {
    use gecs::prelude::*;

    #[derive(Clone, Copy, PartialEq, Debug)]
    pub struct CA(pub u8);
    #[derive(Clone, Copy, PartialEq, Debug)]
    pub struct CB(pub u16);

    ecs_world! {
        ecs_name!(W1);
        #[archetype_id(5)]
        ecs_archetype!(ArchFoo, CA);
        #[archetype_id(255)]
        ecs_archetype!(ArchBar, CA, CB);
    }

    crate::model_arch!(
        Foo, W1, |cap| W1::with_capacity(W1Capacity { arch_foo: cap, arch_bar: 0 }),
        ArchFoo, arch_foo, 5, 1, 0,
        mk = |v, x| ArchFooComponents { ca: CA(v) },
        un = |c| (c.ca.0, 0, true),
        get = |a, i| (a.get_slice::<CA>()[i].0, 0, true),
        first = CA, 1, |c| c.0
    );
    crate::paths_impl!(Foo, ArchFoo, ArchFooComponents, |v, x| [(ca, CA, CA(v))]);

    crate::model_arch!(
        Bar, W1, |cap| W1::with_capacity(W1Capacity { arch_foo: 0, arch_bar: cap }),
        ArchBar, arch_bar, 255, 2, 0xffff,
        mk = |v, x| ArchBarComponents { ca: CA(v), cb: CB(x as u16) },
        un = |c| (c.ca.0, c.cb.0 as u32, true),
        get = |a, i| (a.get_slice::<CA>()[i].0, a.get_slice::<CB>()[i].0 as u32, true),
        first = CA, 1, |c| c.0
    );
    crate::paths_impl!(Bar, ArchBar, ArchBarComponents, |v, x| [(ca, CA, CA(v)), (cb, CB, CB(x as u16))]);
}

/// W3: `ArchTri` has three columns of different size/alignment — a byte, a padded `repr(C)`
/// struct and a zero-sized type (Storage3, id 3); `ArchOther` shares `P` (Storage2, id 254).
pub mod w3 {
    use gecs::prelude::*;

    #[derive(Clone, Copy, PartialEq, Debug)]
    pub struct P(pub u8);
    #[derive(Clone, Copy, PartialEq, Debug)]
    #[repr(C)]
    pub struct Pad(pub u8, pub u32);
    #[derive(Clone, Copy, PartialEq, Debug)]
    pub struct Zs;
    #[derive(Clone, Copy, PartialEq, Debug)]
    pub struct Q(pub u16);

    ecs_world! {
        ecs_name!(W3);
        #[archetype_id(3)]
        ecs_archetype!(ArchTri, P, Pad, Zs);
        #[archetype_id(254)]
        ecs_archetype!(ArchOther, Q, P);
    }

    crate::model_arch!(
        Tri, W3, |cap| W3::with_capacity(W3Capacity { arch_tri: cap, arch_other: 0 }),
        ArchTri, arch_tri, 3, 3, u32::MAX,
        mk = |v, x| ArchTriComponents { p: P(v), pad: Pad(v ^ 0x5a, x), zs: Zs },
        un = |c| (c.p.0, c.pad.1, c.pad.0 == c.p.0 ^ 0x5a),
        get = |a, i| {
            let p = a.get_slice::<P>()[i].0;
            let pad = a.get_slice::<Pad>()[i];
            (p, pad.1, pad.0 == p ^ 0x5a)
        },
        first = P, 1, |c| c.0
    );
    crate::paths_impl!(Tri, ArchTri, ArchTriComponents, |v, x| [(p, P, P(v)), (pad, Pad, Pad(v ^ 0x5a, x)), (zs, Zs, Zs)]);

    crate::model_arch!(
        Other, W3, |cap| W3::with_capacity(W3Capacity { arch_tri: 0, arch_other: cap }),
        ArchOther, arch_other, 254, 2, 0xffff,
        mk = |v, x| ArchOtherComponents { q: Q(x as u16), p: P(v) },
        un = |c| (c.p.0, c.q.0 as u32, true),
        get = |a, i| (a.get_slice::<P>()[i].0, a.get_slice::<Q>()[i].0 as u32, true),
        first = P, 2, |c| c.0
    );
    crate::paths_impl!(Other, ArchOther, ArchOtherComponents, |v, x| [(q, Q, Q(x as u16)), (p, P, P(v))]);
}

/// W16: one archetype with the maximum default number of columns (Storage16, implicit id 0).
pub mod w16 {
    use gecs::prelude::*;

    macro_rules! comps { ($($n:ident),*) => { $( #[derive(Clone, Copy, PartialEq, Debug)] pub struct $n(pub u8); )* } }
    comps!(B0, B1, B2, B3, B4, B5, B6, B7, B8, B9, B10, B11, B12, B13, B14, B15);

    ecs_world! {
        ecs_name!(W16);
        ecs_archetype!(ArchWide, B0, B1, B2, B3, B4, B5, B6, B7, B8, B9, B10, B11, B12, B13, B14, B15);
    }

    crate::model_arch!(
        Wide, W16, |cap| W16::with_capacity(W16Capacity { arch_wide: cap }),
        ArchWide, arch_wide, 0, 16, u32::MAX,
        mk = |v, x| {
            let b = x.to_le_bytes();
            ArchWideComponents {
                b_0: B0(v), b_1: B1(v ^ 1), b_2: B2(v ^ 2), b_3: B3(v ^ 3), b_4: B4(v ^ 4), b_5: B5(v ^ 5),
                b_6: B6(v ^ 6), b_7: B7(v ^ 7), b_8: B8(v ^ 8), b_9: B9(v ^ 9), b_10: B10(v ^ 10),
                b_11: B11(v ^ 11), b_12: B12(b[0]), b_13: B13(b[1]), b_14: B14(b[2]), b_15: B15(b[3]),
            }
        },
        un = |c| {
            let v = c.b_0.0;
            let ok = c.b_1.0 == v ^ 1 && c.b_2.0 == v ^ 2 && c.b_3.0 == v ^ 3 && c.b_4.0 == v ^ 4
                && c.b_5.0 == v ^ 5 && c.b_6.0 == v ^ 6 && c.b_7.0 == v ^ 7 && c.b_8.0 == v ^ 8
                && c.b_9.0 == v ^ 9 && c.b_10.0 == v ^ 10 && c.b_11.0 == v ^ 11;
            (v, u32::from_le_bytes([c.b_12.0, c.b_13.0, c.b_14.0, c.b_15.0]), ok)
        },
        get = |a, i| {
            let v = a.get_slice::<B0>()[i].0;
            let ok = a.get_slice::<B1>()[i].0 == v ^ 1 && a.get_slice::<B2>()[i].0 == v ^ 2
                && a.get_slice::<B3>()[i].0 == v ^ 3 && a.get_slice::<B4>()[i].0 == v ^ 4
                && a.get_slice::<B5>()[i].0 == v ^ 5 && a.get_slice::<B6>()[i].0 == v ^ 6
                && a.get_slice::<B7>()[i].0 == v ^ 7 && a.get_slice::<B8>()[i].0 == v ^ 8
                && a.get_slice::<B9>()[i].0 == v ^ 9 && a.get_slice::<B10>()[i].0 == v ^ 10
                && a.get_slice::<B11>()[i].0 == v ^ 11;
            let x = u32::from_le_bytes([
                a.get_slice::<B12>()[i].0, a.get_slice::<B13>()[i].0,
                a.get_slice::<B14>()[i].0, a.get_slice::<B15>()[i].0,
            ]);
            (v, x, ok)
        },
        first = B0, 1, |c| c.0
    );
}

impl w3::W3 {
    /// A W3 world with the given capacities for both archetypes.
    pub fn both(tri: usize, other: usize) -> w3::W3 {
        use gecs::prelude::*;
        w3::W3::with_capacity(w3::W3Capacity { arch_tri: tri, arch_other: other })
    }
}

impl w1::W1 {
    pub fn both(foo: usize, bar: usize) -> w1::W1 {
        use gecs::prelude::*;
        w1::W1::with_capacity(w1::W1Capacity { arch_foo: foo, arch_bar: bar })
    }
}

/// WT: token components with ghost-counting `Drop`/`Clone` (one of them zero-sized).
/// Token ids are < 8 for originals; a clone of token `i` gets id `i + 8`.
pub mod wt {
    use gecs::prelude::*;

    pub static mut DROPS: [u8; 16] = [0; 16];
    pub static mut CLONES: [u8; 16] = [0; 16];
    pub static mut ZDROPS: u8 = 0;
    pub static mut ZCLONES: u8 = 0;
    /// Optional callback run at the start of every `Tok::clone` / `Tok::drop` (C10: the k-th
    /// callback is a point where user code may panic).
    pub static mut ON_CLONE: Option<fn(u8)> = None;
    pub static mut ON_DROP: Option<fn(u8)> = None;

    pub struct Tok(pub u8);
    pub struct Zt;

    impl Clone for Tok {
        fn clone(&self) -> Self {
            unsafe {
                if let Some(f) = ON_CLONE {
                    f(self.0);
                }
                assert!(self.0 < 8, "a clone was cloned or a garbage token was read");
                CLONES[self.0 as usize] += 1;
            }
            Tok(self.0 + 8)
        }
    }
    impl Drop for Tok {
        fn drop(&mut self) {
            unsafe {
                if let Some(f) = ON_DROP {
                    f(self.0);
                }
                assert!(self.0 < 16, "a garbage token was dropped");
                DROPS[self.0 as usize] += 1;
                assert!(DROPS[self.0 as usize] == 1, "a component value was dropped twice");
            }
        }
    }
    impl Clone for Zt {
        fn clone(&self) -> Self {
            unsafe { ZCLONES += 1 };
            Zt
        }
    }
    impl Drop for Zt {
        fn drop(&mut self) {
            unsafe { ZDROPS += 1 };
        }
    }

    pub fn reset() {
        unsafe {
            DROPS = [0; 16];
            CLONES = [0; 16];
            ZDROPS = 0;
            ZCLONES = 0;
            ON_CLONE = None;
            ON_DROP = None;
        }
    }

    ecs_world! {
        ecs_name!(WT);
        #[archetype_id(9)]
        ecs_archetype!(ArchTok, Tok, Zt);
    }

    /// A user type with a user-written conversion into the component tuple; the conversion is
    /// user code that may panic, so it calls the C10 inspection callback when one is installed.
    pub struct Lazy(pub u8);
    pub static mut ON_CONVERT: Option<unsafe fn()> = None;
    impl From<Lazy> for ArchTokComponents {
        fn from(l: Lazy) -> Self {
            unsafe {
                if let Some(f) = ON_CONVERT {
                    f();
                }
            }
            ArchTokComponents { tok: Tok(l.0), zt: Zt }
        }
    }

    crate::model_arch!(
        TokM, WT, |cap| WT::with_capacity(WTCapacity { arch_tok: cap }),
        ArchTok, arch_tok, 9, 2, 0,
        mk = |v, x| ArchTokComponents { tok: Tok(v), zt: Zt },
        un = |c| (c.tok.0, 0, true),
        get = |a, i| (a.get_slice::<Tok>()[i].0, 0, true),
        first = Tok, 1, |c| c.0
    );
}

/// WZF: an archetype whose FIRST column is zero-sized (pointer arithmetic on a dangling,
/// zero-stride first column), value column second, padded column last.
pub mod wzf {
    use gecs::prelude::*;

    #[derive(Clone, Copy, PartialEq, Debug)]
    pub struct Zf;
    #[derive(Clone, Copy, PartialEq, Debug)]
    pub struct Pz(pub u8);
    #[derive(Clone, Copy, PartialEq, Debug)]
    #[repr(C)]
    pub struct Padz(pub u8, pub u32);

    ecs_world! {
        ecs_name!(WZF);
        #[archetype_id(11)]
        ecs_archetype!(ArchZf, Zf, Pz, Padz);
    }

    crate::model_arch!(
        ZfM, WZF, |cap| WZF::with_capacity(WZFCapacity { arch_zf: cap }),
        ArchZf, arch_zf, 11, 3, u32::MAX,
        mk = |v, x| ArchZfComponents { zf: Zf, pz: Pz(v), padz: Padz(v ^ 0x5a, x) },
        un = |c| (c.pz.0, c.padz.1, c.padz.0 == c.pz.0 ^ 0x5a),
        get = |a, i| {
            let p = a.get_slice::<Pz>()[i].0;
            let pad = a.get_slice::<Padz>()[i];
            (p, pad.1, pad.0 == p ^ 0x5a)
        },
        first = Pz, 2, |c| c.0
    );
    crate::paths_impl!(ZfM, ArchZf, ArchZfComponents, |v, x| [(zf, Zf, Zf), (pz, Pz, Pz(v)), (padz, Padz, Padz(v ^ 0x5a, x))]);
}

/// WAL: a component whose ALIGNMENT exceeds what the allocator guarantees by default (32 > 16):
/// allocation, growth and deallocation paths that treat over-aligned types specially.
pub mod wal {
    use gecs::prelude::*;

    #[derive(Clone, Copy, PartialEq, Debug)]
    pub struct Pa(pub u8);
    #[derive(Clone, Copy, PartialEq, Debug)]
    #[repr(align(32))]
    pub struct Al(pub u8, pub u32);

    ecs_world! {
        ecs_name!(WAL);
        #[archetype_id(13)]
        ecs_archetype!(ArchAl, Pa, Al);
    }

    crate::model_arch!(
        AlM, WAL, |cap| WAL::with_capacity(WALCapacity { arch_al: cap }),
        ArchAl, arch_al, 13, 2, u32::MAX,
        mk = |v, x| ArchAlComponents { pa: Pa(v), al: Al(v ^ 0x33, x) },
        un = |c| (c.pa.0, c.al.1, c.al.0 == c.pa.0 ^ 0x33),
        get = |a, i| {
            let p = a.get_slice::<Pa>()[i].0;
            let al = a.get_slice::<Al>()[i];
            (p, al.1, al.0 == p ^ 0x33)
        },
        first = Pa, 1, |c| c.0
    );
    crate::paths_impl!(AlM, ArchAl, ArchAlComponents, |v, x| [(pa, Pa, Pa(v)), (al, Al, Al(v ^ 0x33, x))]);
}

/// WMX: archetypes that MIX a column with drop glue (the C04 token) and plain-data columns,
/// in both orders, in one world whose explicit ids DESCEND in declaration order.
pub mod wmx {
    pub use super::wt::{reset, Tok, CLONES, DROPS};
    use gecs::prelude::*;

    #[derive(Clone, Copy, PartialEq, Debug)]
    pub struct Plain(pub u32);

    ecs_world! {
        ecs_name!(WMX);
        #[archetype_id(40)]
        ecs_archetype!(ArchTp, Tok, Plain);
        #[archetype_id(20)]
        ecs_archetype!(ArchPt, Plain, Tok);
        #[archetype_id(30)]
        ecs_archetype!(ArchPp, Plain);
    }
}
