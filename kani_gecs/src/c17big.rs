//! A world declaring the MAXIMUM of 256 archetypes (ids 0..=255): the world-level event iterator's
//! `u8` archetype cursor at its boundary (C17, C19). Generated once; feature `big_world` (+ `events`).
use crate::sym;
use crate::{cover, harness};
use gecs::prelude::*;

#[derive(Clone, Copy, PartialEq, Debug)]
pub struct KC(pub u8);

ecs_world! {
    ecs_name!(WBig);
    ecs_archetype!(K000, KC);
    ecs_archetype!(K001, KC);
    ecs_archetype!(K002, KC);
    ecs_archetype!(K003, KC);
    ecs_archetype!(K004, KC);
    ecs_archetype!(K005, KC);
    ecs_archetype!(K006, KC);
    ecs_archetype!(K007, KC);
    ecs_archetype!(K008, KC);
    ecs_archetype!(K009, KC);
    ecs_archetype!(K010, KC);
    ecs_archetype!(K011, KC);
    ecs_archetype!(K012, KC);
    ecs_archetype!(K013, KC);
    ecs_archetype!(K014, KC);
    ecs_archetype!(K015, KC);
    ecs_archetype!(K016, KC);
    ecs_archetype!(K017, KC);
    ecs_archetype!(K018, KC);
    ecs_archetype!(K019, KC);
    ecs_archetype!(K020, KC);
    ecs_archetype!(K021, KC);
    ecs_archetype!(K022, KC);
    ecs_archetype!(K023, KC);
    ecs_archetype!(K024, KC);
    ecs_archetype!(K025, KC);
    ecs_archetype!(K026, KC);
    ecs_archetype!(K027, KC);
    ecs_archetype!(K028, KC);
    ecs_archetype!(K029, KC);
    ecs_archetype!(K030, KC);
    ecs_archetype!(K031, KC);
    ecs_archetype!(K032, KC);
    ecs_archetype!(K033, KC);
    ecs_archetype!(K034, KC);
    ecs_archetype!(K035, KC);
    ecs_archetype!(K036, KC);
    ecs_archetype!(K037, KC);
    ecs_archetype!(K038, KC);
    ecs_archetype!(K039, KC);
    ecs_archetype!(K040, KC);
    ecs_archetype!(K041, KC);
    ecs_archetype!(K042, KC);
    ecs_archetype!(K043, KC);
    ecs_archetype!(K044, KC);
    ecs_archetype!(K045, KC);
    ecs_archetype!(K046, KC);
    ecs_archetype!(K047, KC);
    ecs_archetype!(K048, KC);
    ecs_archetype!(K049, KC);
    ecs_archetype!(K050, KC);
    ecs_archetype!(K051, KC);
    ecs_archetype!(K052, KC);
    ecs_archetype!(K053, KC);
    ecs_archetype!(K054, KC);
    ecs_archetype!(K055, KC);
    ecs_archetype!(K056, KC);
    ecs_archetype!(K057, KC);
    ecs_archetype!(K058, KC);
    ecs_archetype!(K059, KC);
    ecs_archetype!(K060, KC);
    ecs_archetype!(K061, KC);
    ecs_archetype!(K062, KC);
    ecs_archetype!(K063, KC);
    ecs_archetype!(K064, KC);
    ecs_archetype!(K065, KC);
    ecs_archetype!(K066, KC);
    ecs_archetype!(K067, KC);
    ecs_archetype!(K068, KC);
    ecs_archetype!(K069, KC);
    ecs_archetype!(K070, KC);
    ecs_archetype!(K071, KC);
    ecs_archetype!(K072, KC);
    ecs_archetype!(K073, KC);
    ecs_archetype!(K074, KC);
    ecs_archetype!(K075, KC);
    ecs_archetype!(K076, KC);
    ecs_archetype!(K077, KC);
    ecs_archetype!(K078, KC);
    ecs_archetype!(K079, KC);
    ecs_archetype!(K080, KC);
    ecs_archetype!(K081, KC);
    ecs_archetype!(K082, KC);
    ecs_archetype!(K083, KC);
    ecs_archetype!(K084, KC);
    ecs_archetype!(K085, KC);
    ecs_archetype!(K086, KC);
    ecs_archetype!(K087, KC);
    ecs_archetype!(K088, KC);
    ecs_archetype!(K089, KC);
    ecs_archetype!(K090, KC);
    ecs_archetype!(K091, KC);
    ecs_archetype!(K092, KC);
    ecs_archetype!(K093, KC);
    ecs_archetype!(K094, KC);
    ecs_archetype!(K095, KC);
    ecs_archetype!(K096, KC);
    ecs_archetype!(K097, KC);
    ecs_archetype!(K098, KC);
    ecs_archetype!(K099, KC);
    ecs_archetype!(K100, KC);
    ecs_archetype!(K101, KC);
    ecs_archetype!(K102, KC);
    ecs_archetype!(K103, KC);
    ecs_archetype!(K104, KC);
    ecs_archetype!(K105, KC);
    ecs_archetype!(K106, KC);
    ecs_archetype!(K107, KC);
    ecs_archetype!(K108, KC);
    ecs_archetype!(K109, KC);
    ecs_archetype!(K110, KC);
    ecs_archetype!(K111, KC);
    ecs_archetype!(K112, KC);
    ecs_archetype!(K113, KC);
    ecs_archetype!(K114, KC);
    ecs_archetype!(K115, KC);
    ecs_archetype!(K116, KC);
    ecs_archetype!(K117, KC);
    ecs_archetype!(K118, KC);
    ecs_archetype!(K119, KC);
    ecs_archetype!(K120, KC);
    ecs_archetype!(K121, KC);
    ecs_archetype!(K122, KC);
    ecs_archetype!(K123, KC);
    ecs_archetype!(K124, KC);
    ecs_archetype!(K125, KC);
    ecs_archetype!(K126, KC);
    ecs_archetype!(K127, KC);
    ecs_archetype!(K128, KC);
    ecs_archetype!(K129, KC);
    ecs_archetype!(K130, KC);
    ecs_archetype!(K131, KC);
    ecs_archetype!(K132, KC);
    ecs_archetype!(K133, KC);
    ecs_archetype!(K134, KC);
    ecs_archetype!(K135, KC);
    ecs_archetype!(K136, KC);
    ecs_archetype!(K137, KC);
    ecs_archetype!(K138, KC);
    ecs_archetype!(K139, KC);
    ecs_archetype!(K140, KC);
    ecs_archetype!(K141, KC);
    ecs_archetype!(K142, KC);
    ecs_archetype!(K143, KC);
    ecs_archetype!(K144, KC);
    ecs_archetype!(K145, KC);
    ecs_archetype!(K146, KC);
    ecs_archetype!(K147, KC);
    ecs_archetype!(K148, KC);
    ecs_archetype!(K149, KC);
    ecs_archetype!(K150, KC);
    ecs_archetype!(K151, KC);
    ecs_archetype!(K152, KC);
    ecs_archetype!(K153, KC);
    ecs_archetype!(K154, KC);
    ecs_archetype!(K155, KC);
    ecs_archetype!(K156, KC);
    ecs_archetype!(K157, KC);
    ecs_archetype!(K158, KC);
    ecs_archetype!(K159, KC);
    ecs_archetype!(K160, KC);
    ecs_archetype!(K161, KC);
    ecs_archetype!(K162, KC);
    ecs_archetype!(K163, KC);
    ecs_archetype!(K164, KC);
    ecs_archetype!(K165, KC);
    ecs_archetype!(K166, KC);
    ecs_archetype!(K167, KC);
    ecs_archetype!(K168, KC);
    ecs_archetype!(K169, KC);
    ecs_archetype!(K170, KC);
    ecs_archetype!(K171, KC);
    ecs_archetype!(K172, KC);
    ecs_archetype!(K173, KC);
    ecs_archetype!(K174, KC);
    ecs_archetype!(K175, KC);
    ecs_archetype!(K176, KC);
    ecs_archetype!(K177, KC);
    ecs_archetype!(K178, KC);
    ecs_archetype!(K179, KC);
    ecs_archetype!(K180, KC);
    ecs_archetype!(K181, KC);
    ecs_archetype!(K182, KC);
    ecs_archetype!(K183, KC);
    ecs_archetype!(K184, KC);
    ecs_archetype!(K185, KC);
    ecs_archetype!(K186, KC);
    ecs_archetype!(K187, KC);
    ecs_archetype!(K188, KC);
    ecs_archetype!(K189, KC);
    ecs_archetype!(K190, KC);
    ecs_archetype!(K191, KC);
    ecs_archetype!(K192, KC);
    ecs_archetype!(K193, KC);
    ecs_archetype!(K194, KC);
    ecs_archetype!(K195, KC);
    ecs_archetype!(K196, KC);
    ecs_archetype!(K197, KC);
    ecs_archetype!(K198, KC);
    ecs_archetype!(K199, KC);
    ecs_archetype!(K200, KC);
    ecs_archetype!(K201, KC);
    ecs_archetype!(K202, KC);
    ecs_archetype!(K203, KC);
    ecs_archetype!(K204, KC);
    ecs_archetype!(K205, KC);
    ecs_archetype!(K206, KC);
    ecs_archetype!(K207, KC);
    ecs_archetype!(K208, KC);
    ecs_archetype!(K209, KC);
    ecs_archetype!(K210, KC);
    ecs_archetype!(K211, KC);
    ecs_archetype!(K212, KC);
    ecs_archetype!(K213, KC);
    ecs_archetype!(K214, KC);
    ecs_archetype!(K215, KC);
    ecs_archetype!(K216, KC);
    ecs_archetype!(K217, KC);
    ecs_archetype!(K218, KC);
    ecs_archetype!(K219, KC);
    ecs_archetype!(K220, KC);
    ecs_archetype!(K221, KC);
    ecs_archetype!(K222, KC);
    ecs_archetype!(K223, KC);
    ecs_archetype!(K224, KC);
    ecs_archetype!(K225, KC);
    ecs_archetype!(K226, KC);
    ecs_archetype!(K227, KC);
    ecs_archetype!(K228, KC);
    ecs_archetype!(K229, KC);
    ecs_archetype!(K230, KC);
    ecs_archetype!(K231, KC);
    ecs_archetype!(K232, KC);
    ecs_archetype!(K233, KC);
    ecs_archetype!(K234, KC);
    ecs_archetype!(K235, KC);
    ecs_archetype!(K236, KC);
    ecs_archetype!(K237, KC);
    ecs_archetype!(K238, KC);
    ecs_archetype!(K239, KC);
    ecs_archetype!(K240, KC);
    ecs_archetype!(K241, KC);
    ecs_archetype!(K242, KC);
    ecs_archetype!(K243, KC);
    ecs_archetype!(K244, KC);
    ecs_archetype!(K245, KC);
    ecs_archetype!(K246, KC);
    ecs_archetype!(K247, KC);
    ecs_archetype!(K248, KC);
    ecs_archetype!(K249, KC);
    ecs_archetype!(K250, KC);
    ecs_archetype!(K251, KC);
    ecs_archetype!(K252, KC);
    ecs_archetype!(K253, KC);
    ecs_archetype!(K254, KC);
    ecs_archetype!(K255, KC);
}

fn drive<'a, I: Iterator<Item = &'a EntityAny>>(mut it: I, exp: &[Option<EntityAny>; 3], k: usize) {
    let (lo, hi) = it.size_hint();
    assert!(lo == k && hi == Some(k), "size_hint of a fresh world-level event iterator is not exact");
    let mut j = 0;
    while j < 5 {
        let nx = it.next();
        if j < k {
            assert!(nx.copied() == exp[j], "world-level event iterator is not the concatenation of the archetypes' logs");
        } else {
            assert!(nx.is_none(), "world-level event iterator yields more than the archetypes' logs");
        }
        j += 1;
    }
    let (lo, hi) = it.size_hint();
    assert!(lo == 0 && hi == Some(0), "size_hint of an exhausted world-level event iterator is not (0, Some(0))");
}

/// Events in a symbolic choice of archetypes (the first, one in the middle, the last); the
/// iterator is driven past its end: exactly the logged handles in archetype order, then `None`
/// (also when asked again), exact `size_hint` before and after.
pub fn big_world_iterators(destroyed: bool) {
    let mut world = WBig::new();
    let first = sym::any_bool();
    let mid = sym::any_bool();
    let last = sym::any_bool();
    let mut exp: [Option<EntityAny>; 3] = [None; 3];
    let mut k = 0;
    if first {
        let e = world.create::<K000>((KC(1),));
        if destroyed {
            world.destroy(e);
        }
        exp[k] = Some(e.into_any());
        k += 1;
    }
    if mid {
        let e = world.create::<K128>((KC(2),));
        if destroyed {
            world.destroy(e);
        }
        exp[k] = Some(e.into_any());
        k += 1;
    }
    if last {
        let e = world.create::<K255>((KC(3),));
        if destroyed {
            world.destroy(e);
        }
        exp[k] = Some(e.into_any());
        k += 1;
    }
    assert!(e_id::<K000>() == 0 && e_id::<K128>() == 128 && e_id::<K255>() == 255, "implicit ids of a 256-archetype world");
    if destroyed {
        drive(world.iter_destroyed(), &exp, k);
    } else {
        drive(world.iter_created(), &exp, k);
    }
    cover!(first && !mid && last, "events in the first and the last of 256 archetypes");
    cover!(!first && !mid && !last, "no events at all");
    std::mem::forget(world);
}

fn e_id<A: Archetype>() -> u8 {
    A::ARCHETYPE_ID
}

harness! { fn c17big_world_iter_created() unwind(7) { big_world_iterators(false) } }
harness! { fn c17big_world_iter_destroyed() unwind(7) { big_world_iterators(true) } }

/// The cheapest program that reaches the cursor's boundary: no event at all, so a single `next()`
/// walks the cursor through all 256 archetypes. Fully concrete (the solver has nothing to choose;
/// what is decided is that no check on the way — arithmetic overflow included — can fail).
pub fn big_world_empty_iterators() {
    let world = WBig::new();
    {
        let mut it = world.iter_created();
        let (lo, hi) = it.size_hint();
        assert!(lo == 0 && hi == Some(0), "size_hint of an empty world-level event iterator");
        assert!(it.next().is_none(), "an empty 256-archetype world yields a created event");
        assert!(it.next().is_none(), "an exhausted world-level event iterator yields an event when asked again");
        let (lo, hi) = it.size_hint();
        assert!(lo == 0 && hi == Some(0), "size_hint of an exhausted world-level event iterator");
    }
    {
        let mut it = world.iter_destroyed();
        assert!(it.next().is_none() && it.next().is_none(), "an empty 256-archetype world yields a destroyed event");
    }
    assert!(world.iter_created().count() == 0 && world.iter_destroyed().last().is_none());
    cover!(true, "both iterators of the 256-archetype world drained");
    std::mem::forget(world);
}

harness! { fn c17big_world_iter_empty() unwind(3) { big_world_empty_iterators() } }
