//! C03 — arbitrary, forged or foreign handles are memory-safe and never match by accident.
//! Handles range over all 2^64 raw values; pre-states over all Inv states of capacity N.
//! Memory-safety is CBMC's own pointer/bounds/unreachable checks on the real code: the runner
//! lets no check of those classes fail; only the crate's documented clean panics may.

use crate::model::*;
use crate::steps::*;
use crate::sym;
use crate::worlds::{w1, w3};
use crate::{cover, harness};
use gecs::prelude::*;

/// Arbitrary 64-bit `(key, generation)` through every non-mutating entry point.
pub fn forged_entity<M: MArch, const N: usize>(paths: u8) {
    let m: Model<N> = Model::any_inv();
    let mut world = load::<M, N>(&m);
    let key = sym::any_u32();
    let ver = sym::any_u32();
    // id restricted to ids the world declares only for the world-level / query paths (an
    // undeclared id there is the documented clean panic, decided by c03_world_unknown_id)
    if paths & (P_WORLD | P_QUERY) != 0 {
        sym::assume((key & 0xff) as u8 == M::ID);
    }
    let p = (key >> 8) as usize;
    cover!(N == 0 || (ver != 0 && (key & 0xff) as u8 == M::ID && p < N && !m.slot_live(p) && m.slot_ver[p] == ver), "forged handle matches a FREE position's generation");
    cover!(ver != 0 && (key & 0xff) as u8 == M::ID && p == N, "position == capacity");
    cover!(ver != 0 && (key & 0xff) as u8 == M::ID && p > N + 1000, "position far beyond capacity");
    cover!(m.len == 0, "empty archetype");
    cover!(m.len == N, "full archetype");
    cover!(N == 0 || (ver != 0 && m.lookup(M::ID, key, ver).is_some()), "bit-identical to a live handle");
    probe_entity::<M, N>(&mut world, &m, key, ver, paths);
    std::mem::forget(world);
}

/// Arbitrary 64-bit `(key, generation)` into destroy (typed, dynamic; archetype and world).
pub fn forged_destroy<M: MArch, const N: usize>(kind: u8) {
    let m: Model<N> = Model::any_inv();
    assume_no_overflow(&m);
    let mut world = load::<M, N>(&m);
    let key = sym::any_u32();
    let ver = sym::any_u32();
    sym::assume(ver != 0);
    let any = EntityAny::from_raw((key, ver)).ok().unwrap();
    let exp = m.lookup(M::ID, key, ver);
    let id_matches = (key & 0xff) as u8 == M::ID;
    let got: bool = match kind {
        0 => {
            sym::assume(id_matches);
            let typed: Entity<M::Arch> = any.try_into().ok().unwrap();
            M::arch_mut(&mut world).destroy(typed).map(|c| M::un(c)).is_some()
        }
        1 => M::arch_mut(&mut world).destroy(any).map(|c| M::un(c)).is_some(),
        _ => {
            sym::assume(id_matches);
            world.destroy(any).is_some()
        }
    };
    assert!(got == exp.is_some(), "destroy accepted a handle that is not bit-identical to a live one (or refused one that is)");
    let post: Model<N> = read::<M, N>(&mut world);
    match exp {
        None => assert_unchanged::<M, N>(&m, &post),
        Some(d) => assert_destroyed::<M, N>(&m, &post, d),
    }
    let p = (key >> 8) as usize;
    cover!(id_matches && p < N && !m.slot_live(p) && m.slot_ver[p] == ver, "destroy with a FREE position's generation");
    cover!(kind != 1 || !id_matches, "destroy with a foreign archetype id");
    std::mem::forget(world);
}

/// Arbitrary direct handle `(index < 2^24, version != 0)` — exactly what a direct handle
/// taken from a different world looks like — through every non-mutating entry point.
pub fn forged_direct<M: MArch, const N: usize>(paths: u8) {
    let m: Model<N> = Model::any_inv();
    let mut world = load::<M, N>(&m);
    let idx = sym::any_usize();
    let ver = sym::any_u32();
    sym::assume(idx < MAX_CAP && ver != 0);
    cover!(ver == m.version && idx == m.len, "current version, index == len");
    cover!(ver == m.version && idx >= N, "current version, index beyond capacity");
    cover!(N == 0 || (ver == m.version && idx < m.len), "bit-identical to a current direct handle");
    cover!(N == 0 || (ver != m.version && idx < m.len), "stale or foreign version, index in range");
    probe_direct::<M, N>(&mut world, &m, idx, ver, paths);
    std::mem::forget(world);
}

/// Arbitrary direct handle into destroy.
pub fn forged_destroy_direct<M: MArch, const N: usize>(kind: u8) {
    let m: Model<N> = Model::any_inv();
    assume_no_overflow(&m);
    let mut world = load::<M, N>(&m);
    let idx = sym::any_usize();
    let ver = sym::any_u32();
    sym::assume(idx < MAX_CAP && ver != 0);
    let d = direct_of::<M>(idx, ver);
    let da: EntityDirectAny = d.into();
    let exp = m.lookup_direct(M::ID, ((idx as u32) << 8) | M::ID as u32, ver);
    let got = match kind {
        0 => M::arch_mut(&mut world).destroy(d).map(|c| M::un(c)).is_some(),
        1 => M::arch_mut(&mut world).destroy(da).map(|c| M::un(c)).is_some(),
        _ => world.destroy(da).is_some(),
    };
    assert!(got == exp.is_some(), "destroy(direct) accepted/refused against the model");
    let post: Model<N> = read::<M, N>(&mut world);
    match exp {
        None => assert_unchanged::<M, N>(&m, &post),
        Some(i) => assert_destroyed::<M, N>(&m, &post, i),
    }
    cover!(exp.is_none() && ver == m.version, "current version, index out of range");
    std::mem::forget(world);
}

/// A direct handle of ANOTHER archetype (foreign id) presented dynamically.
pub fn foreign_direct<M: MArch, F: MArch<World = M::World>, const N: usize>() {
    let m: Model<N> = Model::any_inv();
    let mut world = load::<M, N>(&m);
    let idx = sym::any_usize();
    let ver = sym::any_u32();
    sym::assume(idx < MAX_CAP && ver != 0);
    let foreign: EntityDirectAny = direct_of::<F>(idx, ver).into();
    let a = M::arch_mut(&mut world);
    assert!(!a.contains(foreign), "archetype accepted a direct handle carrying another archetype's id");
    assert!(a.resolve(foreign).is_none() && a.view(foreign).is_none() && a.borrow(foreign).is_none() && a.to_direct(foreign).is_none());
    assert!(a.destroy(foreign).map(|c| M::un(c)).is_none(), "archetype destroyed through a foreign direct handle");
    // at world level the handle is routed to its own (empty) archetype
    assert!(!world.contains(foreign) && world.to_direct(foreign).is_none() && world.destroy(foreign).is_none());
    let post: Model<N> = read::<M, N>(&mut world);
    assert_unchanged::<M, N>(&m, &post);
    cover!(ver == m.version && idx < m.len, "foreign id but otherwise current");
    std::mem::forget(world);
}

/// `Entity::<A>::from_any_unchecked` / `EntityDirect::<A>::from_any_unchecked` with an arbitrary
/// (possibly foreign) archetype id: documented `debug_assert!` panic with debug assertions on;
/// with them off the lookup must still only reach a bit-identical live handle (F3 shows here).
pub fn unchecked_conversion<M: MArch, const N: usize>() {
    let m: Model<N> = Model::any_inv();
    let mut world = load::<M, N>(&m);
    let key = sym::any_u32();
    let ver = sym::any_u32();
    sym::assume(ver != 0);
    let any = EntityAny::from_raw((key, ver)).ok().unwrap();
    let typed = Entity::<M::Arch>::from_any_unchecked(any);
    let a = M::arch_mut(&mut world);
    let r = a.resolve(typed);
    if let Some(d) = r {
        assert!(d < m.len, "resolved index out of range");
        assert!(a.entities()[d].into_any().raw() == (key, ver), "accepted a handle that is not bit-identical to the live entity's (unchecked conversion, foreign id)");
    }
    cover!(r.is_some(), "unchecked handle accepted");
    cover!(r.is_none(), "unchecked handle rejected");
    std::mem::forget(world);
}

/// Same for direct handles (built from another archetype's direct handle, so the id is foreign).
pub fn unchecked_conversion_direct<M: MArch, F: MArch<World = M::World>, const N: usize>() {
    let m: Model<N> = Model::any_inv();
    let mut world = load::<M, N>(&m);
    let idx = sym::any_usize();
    let ver = sym::any_u32();
    sym::assume(idx < MAX_CAP && ver != 0);
    let foreign: EntityDirectAny = direct_of::<F>(idx, ver).into();
    let typed = EntityDirect::<M::Arch>::from_any_unchecked(foreign);
    let a = M::arch_mut(&mut world);
    let r = a.resolve(typed);
    // a direct handle of archetype F is never bit-identical to one of archetype M
    assert!(r.is_none(), "accepted a direct handle that is not bit-identical to a current one (unchecked conversion, foreign id)");
    std::mem::forget(world);
}

/// World level, archetype id the world does not declare: clean panic, nothing afterwards.
pub fn world_unknown_id<M: MArch>(which: u8, unknown: u8) {
    let mut world = M::new_world(1);
    let key = sym::any_u32();
    let ver = sym::any_u32();
    sym::assume(ver != 0 && (key & 0xff) as u8 == unknown);
    let h = EntityAny::from_raw((key, ver)).ok().unwrap();
    match which {
        0 => {
            let _ = world.contains(h);
        }
        1 => {
            let _ = world.to_direct(h);
        }
        _ => {
            let _ = world.destroy(h);
        }
    }
    cover!(true, "UNREACHABLE: call with an undeclared archetype id returned");
    std::mem::forget(world);
}

const A: u8 = P_ARCH;
harness! { fn c03_forged_arch_foo_3() unwind(5) { forged_entity::<w1::Foo, 3>(P_ARCH) } }
harness! { fn c03_forged_world_foo_3() unwind(5) { forged_entity::<w1::Foo, 3>(P_WORLD) } }
harness! { fn c03_forged_query_foo_3() unwind(5) { forged_entity::<w1::Foo, 3>(P_QUERY) } }
harness! { fn c03_forged_arch_foo_0() unwind(2) { forged_entity::<w1::Foo, 0>(P_ALL) } }
harness! { fn c03_forged_arch_foo_1() unwind(3) { forged_entity::<w1::Foo, 1>(P_ALL) } }
harness! { fn c03_forged_arch_foo_4() unwind(6) { forged_entity::<w1::Foo, 4>(P_ARCH) } }
harness! { fn c03_forged_arch_tri_3() unwind(5) { forged_entity::<w3::Tri, 3>(P_ARCH) } }
harness! { fn c03_forged_destroy_typed_foo_3() unwind(5) { forged_destroy::<w1::Foo, 3>(0) } }
harness! { fn c03_forged_destroy_any_foo_3() unwind(5) { forged_destroy::<w1::Foo, 3>(1) } }
harness! { fn c03_forged_destroy_world_foo_3() unwind(5) { forged_destroy::<w1::Foo, 3>(2) } }
harness! { fn c03_forged_destroy_any_tri_2() unwind(4) { forged_destroy::<w3::Tri, 2>(1) } }
harness! { fn c03_direct_arch_foo_3() unwind(5) { forged_direct::<w1::Foo, 3>(P_ARCH) } }
harness! { fn c03_direct_world_foo_3() unwind(5) { forged_direct::<w1::Foo, 3>(P_WORLD) } }
harness! { fn c03_direct_query_foo_3() unwind(5) { forged_direct::<w1::Foo, 3>(P_QUERY) } }
harness! { fn c03_direct_arch_foo_0() unwind(2) { forged_direct::<w1::Foo, 0>(P_ALL) } }
harness! { fn c03_direct_arch_tri_2() unwind(4) { forged_direct::<w3::Tri, 2>(P_ARCH | P_WORLD) } }
harness! { fn c03_direct_destroy_foo_3() unwind(5) { forged_destroy_direct::<w1::Foo, 3>(0) } }
harness! { fn c03_direct_destroy_any_foo_3() unwind(5) { forged_destroy_direct::<w1::Foo, 3>(1) } }
harness! { fn c03_direct_destroy_world_foo_2() unwind(4) { forged_destroy_direct::<w1::Foo, 2>(2) } }
harness! { fn c03_foreign_direct_foo_3() unwind(5) { foreign_direct::<w1::Foo, w1::Bar, 3>() } }
harness! { fn c03_unchecked_foo_3() unwind(5) { unchecked_conversion::<w1::Foo, 3>() } }
harness! { fn c03_unchecked_direct_foo_3() unwind(5) { unchecked_conversion_direct::<w1::Foo, w1::Bar, 3>() } }
harness! { fn c03_world_unknown_contains() unwind(3) { world_unknown_id::<w1::Foo>(0, 77) } }
harness! { fn c03_world_unknown_to_direct() unwind(3) { world_unknown_id::<w1::Foo>(1, 0) } }
harness! { fn c03_world_unknown_destroy() unwind(3) { world_unknown_id::<w1::Foo>(2, 254) } }
// a world declaring exactly ONE archetype (generated dispatch tables with a single arm)
harness! { fn c03_world1_unknown_contains() unwind(3) { world_unknown_id::<crate::worlds::w16::Wide>(0, 77) } }
harness! { fn c03_world1_unknown_to_direct() unwind(3) { world_unknown_id::<crate::worlds::w16::Wide>(1, 255) } }
harness! { fn c03_world1_unknown_destroy() unwind(3) { world_unknown_id::<crate::worlds::w16::Wide>(2, 1) } }
