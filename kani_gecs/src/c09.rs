//! C09 — a direct handle never designates another entity and dies with any removal.

use crate::model::*;
use crate::steps::*;
use crate::sym;
use crate::worlds::{w1, w3};
use crate::{cover, harness};
use gecs::prelude::*;

struct Flag(std::cell::Cell<bool>);
unsafe impl Sync for Flag {}
impl Flag {
    fn with<R>(&'static self, f: impl FnOnce(&std::cell::Cell<bool>) -> R) -> R {
        f(&self.0)
    }
}
static REMOVED_OTHER: Flag = Flag(std::cell::Cell::new(false));
static REMOVED_SAME: Flag = Flag(std::cell::Cell::new(false));
static REMOVED_LAST: Flag = Flag(std::cell::Cell::new(false));
static STILL_ACCEPTED: Flag = Flag(std::cell::Cell::new(false));

/// `to_direct` with each key kind from an arbitrary state: the handle obtained is accepted at
/// once by every lookup path and designates the very entity; then one arbitrary structural
/// operation: after a removal it is rejected by every path, after a creation it is either
/// rejected or still designates the same entity.
pub fn obtain_then_step<M: MArch, const N: usize>(kind: u8, op: u8, paths: u8) {
    let m: Model<N> = Model::any_inv();
    assume_no_overflow(&m);
    let k = sym::any_usize();
    sym::assume(k < m.len);
    let mut world = load::<M, N>(&m);
    let (key, ver) = m.handle_raw(M::ID, k);
    let any = EntityAny::from_raw((key, ver)).ok().unwrap();
    let typed: Entity<M::Arch> = any.try_into().ok().unwrap();
    let cur = direct_of::<M>(k, m.version);
    // obtain
    let d: EntityDirect<M::Arch> = match kind {
        0 => M::arch(&world).to_direct(typed).unwrap(),
        1 => M::arch(&world).to_direct(any).unwrap().try_into().ok().unwrap(),
        2 => world.to_direct(typed).unwrap(),
        3 => world.to_direct(any).unwrap().try_into().ok().unwrap(),
        4 => M::arch(&world).to_direct(cur).unwrap(),
        _ => {
            let da: EntityDirectAny = cur.into();
            world.to_direct(da).unwrap().try_into().ok().unwrap()
        }
    };
    assert!(d == cur, "to_direct did not return (dense index, current version)");
    // accepted at the moment it is issued, designating the same entity, through every path
    probe_direct::<M, N>(&mut world, &m, k, m.version, paths);
    assert!(M::q_find(&mut world, Key::Direct(d)) == Some(((key, ver), m.val[k])), "fresh direct handle does not reach its entity");
    // one structural operation
    match op {
        0 => {
            // removal of an arbitrary live entity (possibly the same one)
            let j = sym::any_usize();
            sym::assume(j < m.len);
            let (kj, gj) = m.handle_raw(M::ID, j);
            let victim = EntityAny::from_raw((kj, gj)).ok().unwrap();
            assert!(world.destroy(victim).is_some());
            let post: Model<N> = read::<M, N>(&mut world);
            assert!(post.lookup_direct(M::ID, ((k as u32) << 8) | M::ID as u32, m.version).is_none(), "model: version unchanged by a removal");
            probe_direct::<M, N>(&mut world, &post, k, m.version, paths);
            assert!(!world.contains(d) && M::q_find(&mut world, Key::Direct(d)).is_none(), "direct handle accepted after a removal in its archetype");
            if j != k { REMOVED_OTHER.with(|c| c.set(true)); }
            if j == k { REMOVED_SAME.with(|c| c.set(true)); }
            if N < 2 || (j + 1 == m.len && k + 1 < m.len) { REMOVED_LAST.with(|c| c.set(true)); }
        }
        1 => {
            // creation without growth
            sym::assume(m.len < N);
            let v = sym::any_u8();
            let x = sym::any_u32();
            let _ = world.create::<M::Arch>(M::mk(v, x));
            let post: Model<N> = read::<M, N>(&mut world);
            probe_direct::<M, N>(&mut world, &post, k, m.version, paths);
            match M::q_find(&mut world, Key::Direct(d)) {
                None => {}
                Some((raw, val)) => assert!(raw == (key, ver) && val == m.val[k], "direct handle designates another entity after a creation"),
            }
            if world.contains(d) { STILL_ACCEPTED.with(|c| c.set(true)); }
        }
        3 => {
            // a FAILED destroy (stale / unknown key of any kind) is not a structural change
            let (k2, g2) = any_issued_like::<N>();
            sym::assume(g2 != 0 && (k2 & 0xff) as u8 == M::ID && m.lookup(M::ID, k2, g2).is_none());
            let stale = EntityAny::from_raw((k2, g2)).ok().unwrap();
            let which = sym::any_u8();
            let refused = match which & 3 {
                0 => world.destroy(stale).is_none(),
                1 => M::arch_mut(&mut world).destroy(stale).map(|c| M::un(c)).is_none(),
                2 => {
                    let (i2, v2) = any_direct_like::<N>(&m);
                    sym::assume(m.lookup_direct(M::ID, ((i2 as u32) << 8) | M::ID as u32, v2).is_none());
                    world.destroy(direct_of::<M>(i2, v2)).is_none()
                }
                _ => {
                    let typed2: Entity<M::Arch> = stale.try_into().ok().unwrap();
                    world.destroy(typed2).is_none()
                }
            };
            assert!(refused);
            assert!(world.contains(d) && M::q_find(&mut world, Key::Direct(d)) == Some(((key, ver), m.val[k])), "a direct handle was rejected after a FAILED destroy (no structural change happened)");
            probe_direct::<M, N>(&mut world, &m, k, m.version, paths);
        }
        _ => {
            // removal of the LAST dense entity followed by a creation at the same dense index
            sym::assume(k + 1 == m.len);
            assert!(world.destroy(typed).is_some());
            let v = sym::any_u8();
            let x = sym::any_u32();
            let e2 = world.create::<M::Arch>(M::mk(v, x));
            let post: Model<N> = read::<M, N>(&mut world);
            assert!(post.lookup(M::ID, e2.into_any().raw().0, e2.into_any().raw().1) == Some(k), "HARNESS-BOUND: re-creation did not land on the same dense index");
            probe_direct::<M, N>(&mut world, &post, k, m.version, paths);
            assert!(!world.contains(d) && M::q_find(&mut world, Key::Direct(d)).is_none(), "old direct handle reaches the entity re-created at its dense index");
        }
    }
    cover!(op != 0 || REMOVED_OTHER.with(|c| c.get()), "another entity removed");
    cover!(op != 0 || REMOVED_SAME.with(|c| c.get()), "the designated entity removed");
    cover!(op != 0 || REMOVED_LAST.with(|c| c.get()), "last dense entity removed, handle designates an earlier one (index still in range)");
    cover!(op != 1 || STILL_ACCEPTED.with(|c| c.get()), "still accepted after a creation");
    std::mem::forget(world);
}

/// Steps with an arbitrary (issued-like) direct handle probed against the post-state through
/// every path (H2 as a step obligation).
pub fn step_probe_direct<M: MArch, const N: usize>(op: u8, paths: u8) {
    let m: Model<N> = Model::any_inv();
    assume_no_overflow(&m);
    let mut world = load::<M, N>(&m);
    if op == 0 {
        let (key, ver) = any_issued_like::<N>();
        sym::assume(ver != 0);
        let any = EntityAny::from_raw((key, ver)).ok().unwrap();
        let exp = m.lookup(M::ID, key, ver);
        let got = M::arch_mut(&mut world).destroy(any).map(|c| M::un(c));
        assert!(got.is_some() == exp.is_some());
        if exp.is_some() { REMOVED_OTHER.with(|c| c.set(true)); }
    } else {
        sym::assume(m.len < N);
        let _ = world.create::<M::Arch>(M::mk(sym::any_u8(), sym::any_u32()));
    }
    let post: Model<N> = read::<M, N>(&mut world);
    let (idx, ver) = any_direct_like::<N>(&post);
    // ghost H2: a handle that was current before a removal is not current afterwards
    if op == 0 && post.len < m.len {
        assert!(post.version != m.version, "removal kept the archetype version");
    }
    probe_direct::<M, N>(&mut world, &post, idx, ver, paths);
    cover!(op != 0 || REMOVED_OTHER.with(|c| c.get()), "something destroyed");
    cover!(post.lookup_direct(M::ID, ((idx as u32) << 8) | M::ID as u32, ver).is_some(), "current direct handle probed");
    cover!(op != 0 || (ver == m.version && post.version != m.version && idx < post.len), "direct handle of the pre-state probed after a removal");
    std::mem::forget(world);
}

/// Direct handles minted by the non-destroying query macros: used right after the query,
/// with no structural change in between, each resolves to the entity it was handed out for.
pub fn minted_by_queries<const N: usize>(which: u8) {
    use w3::*;
    let m: Model<N> = Model::any_inv();
    let mut i = 0;
    while i < N {
        sym::assume(m.val[i] == i as u8);
        i += 1;
    }
    let mut world = load::<Tri, N>(&m);
    let mut minted: [Option<EntityDirectAny>; N] = [None; N];
    let k = sym::any_usize();
    sym::assume(k < m.len);
    let (key, ver) = m.handle_raw(Tri::ID, k);
    let h: Entity<ArchTri> = EntityAny::from_raw((key, ver)).ok().unwrap().try_into().ok().unwrap();
    match which {
        0 => ecs_iter!(world, |d: &EntityDirect<ArchTri>, p: &P| { minted[p.0 as usize] = Some(d.into_any()); }),
        1 => ecs_iter!(world, |d: &EntityDirectAny, p: &P, _z: &Zs| { minted[p.0 as usize] = Some(*d); }),
        2 => ecs_iter_borrow!(world, |d: &EntityDirect<_>, p: &P, _pad: &Pad| { minted[p.0 as usize] = Some(d.into_any()); }),
        3 => ecs_iter_borrow!(world, |d: &EntityDirectAny, p: &P, _pad: &mut Pad| { minted[p.0 as usize] = Some(*d); }),
        4 => { ecs_find!(world, h, |d: &EntityDirect<ArchTri>, p: &P| { minted[p.0 as usize] = Some(d.into_any()); }); }
        5 => { ecs_find!(world, h.into_any(), |d: &EntityDirectAny, p: &P, _z: &Zs| { minted[p.0 as usize] = Some(*d); }); }
        6 => { ecs_find_borrow!(world, h, |d: &EntityDirect<_>, p: &P| { minted[p.0 as usize] = Some(d.into_any()); }); }
        7 => { ecs_find_borrow!(world, direct_of::<Tri>(k, m.version), |d: &EntityDirectAny, p: &P| { minted[p.0 as usize] = Some(*d); }); }
        _ => { ecs_find!(world, direct_of::<Tri>(k, m.version).into_any(), |d: &EntityDirect<_>, p: &P| { minted[p.0 as usize] = Some(d.into_any()); }); }
    }
    let mut i = 0;
    while i < N {
        if i < m.len && (which < 4 || i == k) {
            assert!(minted[i].is_some(), "query did not reach a live entity");
            let d = minted[i].unwrap();
            assert!(ecs_find!(world, d, |p: &P| p.0) == Some(i as u8), "a direct handle minted by a query does not resolve to the entity it was handed out for");
            assert!(world.contains(d), "minted direct handle rejected by World::contains");
            let want: EntityDirectAny = direct_of::<Tri>(i, m.version).into();
            assert!(d == want, "minted direct handle is not (dense index, current version)");
        }
        i += 1;
    }
    cover!(m.len == N, "full archetype");
    std::mem::forget(world);
}

harness! { fn c09_obtain_typed_remove_foo_3() unwind(5) { obtain_then_step::<w1::Foo, 3>(0, 0, P_ARCH) } }
harness! { fn c09_obtain_any_remove_foo_3() unwind(5) { obtain_then_step::<w1::Foo, 3>(1, 0, P_WORLD) } }
harness! { fn c09_obtain_wtyped_create_foo_3() unwind(5) { obtain_then_step::<w1::Foo, 3>(2, 1, P_ARCH) } }
harness! { fn c09_obtain_wany_recreate_foo_3() unwind(5) { obtain_then_step::<w1::Foo, 3>(3, 2, P_ARCH | P_WORLD) } }
harness! { fn c09_obtain_direct_remove_foo_3() unwind(5) { obtain_then_step::<w1::Foo, 3>(4, 0, P_QUERY) } }
harness! { fn c09_obtain_wdirectany_remove_foo_2() unwind(4) { obtain_then_step::<w1::Foo, 2>(5, 0, P_ALL) } }
harness! { fn c09_obtain_typed_recreate_tri_2() unwind(4) { obtain_then_step::<w3::Tri, 2>(0, 2, P_ARCH) } }
harness! { fn c09_obtain_any_create_tri_3() unwind(5) { obtain_then_step::<w3::Tri, 3>(1, 1, P_QUERY) } }

harness! { fn c09_obtain_typed_failed_destroy_foo_3() unwind(5) { obtain_then_step::<w1::Foo, 3>(0, 3, P_ARCH) } }
harness! { fn c09_step_destroy_foo_3() unwind(5) { step_probe_direct::<w1::Foo, 3>(0, P_ALL) } }
harness! { fn c09_step_create_foo_3() unwind(5) { step_probe_direct::<w1::Foo, 3>(1, P_ALL) } }
harness! { fn c09_step_destroy_foo_4() unwind(6) { step_probe_direct::<w1::Foo, 4>(0, P_ARCH) } }
harness! { fn c09_step_destroy_tri_3() unwind(5) { step_probe_direct::<w3::Tri, 3>(0, P_ARCH | P_WORLD) } }

harness! { fn c09_minted_iter_typed_3() unwind(5) { minted_by_queries::<3>(0) } }
harness! { fn c09_minted_iter_any_3() unwind(5) { minted_by_queries::<3>(1) } }
harness! { fn c09_minted_iter_borrow_wild_3() unwind(5) { minted_by_queries::<3>(2) } }
harness! { fn c09_minted_iter_borrow_any_3() unwind(5) { minted_by_queries::<3>(3) } }
harness! { fn c09_minted_find_typed_3() unwind(5) { minted_by_queries::<3>(4) } }
harness! { fn c09_minted_find_any_3() unwind(5) { minted_by_queries::<3>(5) } }
harness! { fn c09_minted_find_borrow_wild_3() unwind(5) { minted_by_queries::<3>(6) } }
harness! { fn c09_minted_find_borrow_bydirect_3() unwind(5) { minted_by_queries::<3>(7) } }
harness! { fn c09_minted_find_bydirectany_3() unwind(5) { minted_by_queries::<3>(8) } }
