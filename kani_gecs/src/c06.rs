//! C06 — iteration visits every matching live entity exactly once with its own data;
//! Break ends the whole query at once, across archetypes.

use crate::model::*;
use crate::steps::*;
use crate::sym;
use crate::worlds::w3::*;
use crate::{cover, harness};
use gecs::prelude::*;

/// Arbitrary Inv states for both archetypes of W3 (capacities N1, N2).
fn two_states<const N1: usize, const N2: usize>() -> (W3, Model<N1>, Model<N2>) {
    let mt: Model<N1> = Model::any_inv();
    let mo: Model<N2> = Model::any_inv();
    let mut world = W3::both(N1, N2);
    load_into::<Tri, N1>(&mut world, &mt);
    load_into::<Other, N2>(&mut world, &mo);
    (world, mt, mo)
}

/// Bookkeeping shared by the query-macro harnesses: one visit of the entity with raw handle
/// `raw` that was handed value `p`; returns whether the closure should Break now.
struct Visits<const N1: usize, const N2: usize> {
    tri: [u8; N1],
    other: [u8; N2],
    calls: usize,
    break_at: usize,
}

impl<const N1: usize, const N2: usize> Visits<N1, N2> {
    fn new(break_at: usize) -> Self {
        Visits { tri: [0; N1], other: [0; N2], calls: 0, break_at }
    }

    fn visit(&mut self, mt: &Model<N1>, mo: &Model<N2>, raw: (u32, u32), p: u8, aux: Option<u32>) -> EcsStep {
        let id = (raw.0 & 0xff) as u8;
        if id == Tri::ID {
            let d = mt.lookup(Tri::ID, raw.0, raw.1);
            assert!(d.is_some(), "iteration presented a handle that is not live");
            let d = d.unwrap();
            assert!(p == mt.val[d], "iteration paired an entity with another entity's component");
            if let Some(x) = aux {
                assert!(x == mt.aux[d], "iteration paired an entity with another entity's second column");
            }
            self.tri[d] += 1;
        } else {
            assert!(id == Other::ID, "iteration presented a handle of an undeclared archetype");
            let d = mo.lookup(Other::ID, raw.0, raw.1);
            assert!(d.is_some(), "iteration presented a handle that is not live");
            let d = d.unwrap();
            assert!(p == mo.val[d], "iteration paired an entity with another entity's component");
            if let Some(x) = aux {
                assert!(x & 0xffff == mo.aux[d] & 0xffff, "iteration paired an entity with another entity's second column");
            }
            self.other[d] += 1;
        }
        self.calls += 1;
        if self.calls == self.break_at {
            EcsStep::Break
        } else {
            EcsStep::Continue
        }
    }

    fn check(&self, mt: &Model<N1>, mo: &Model<N2>, matched_tri: bool, matched_other: bool) {
        let total = (if matched_tri { mt.len } else { 0 }) + (if matched_other { mo.len } else { 0 });
        if self.break_at >= 1 && self.break_at <= total {
            assert!(self.calls == self.break_at, "Break did not end the whole query at once");
        } else {
            assert!(self.calls == total, "number of closure calls differs from the number of live matching entities");
        }
        let mut i = 0;
        while i < N1 {
            assert!(self.tri[i] <= 1, "an entity was visited twice");
            if self.calls == total && matched_tri && i < mt.len {
                assert!(self.tri[i] == 1, "a live entity was not visited");
            }
            if !matched_tri || i >= mt.len {
                assert!(self.tri[i] == 0, "something that is not a live matching entity was visited");
            }
            i += 1;
        }
        let mut i = 0;
        while i < N2 {
            assert!(self.other[i] <= 1, "an entity was visited twice");
            if self.calls == total && matched_other && i < mo.len {
                assert!(self.other[i] == 1, "a live entity was not visited");
            }
            if !matched_other || i >= mo.len {
                assert!(self.other[i] == 0, "something that is not a live matching entity was visited");
            }
            i += 1;
        }
    }
}

/// `ecs_iter!` / `ecs_iter_borrow!` over the shared component `P` (matches both archetypes),
/// with Break at a symbolic global step.
pub fn iter_shared<const N1: usize, const N2: usize>(borrow: bool) {
    let (mut world, mt, mo) = two_states::<N1, N2>();
    let k = sym::any_usize();
    sym::assume(k <= N1 + N2 + 1);
    let mut v = Visits::<N1, N2>::new(k);
    if borrow {
        ecs_iter_borrow!(world, |e: &EntityAny, p: &P| v.visit(&mt, &mo, e.raw(), p.0, None));
    } else {
        ecs_iter!(world, |e: &EntityAny, p: &P| v.visit(&mt, &mo, e.raw(), p.0, None));
    }
    v.check(&mt, &mo, true, true);
    cover!(k == 0 && mt.len == N1 && mo.len == N2, "both archetypes full, no Break");
    cover!(mt.len == 0 && mo.len > 0, "first archetype empty");
    cover!(k >= 1 && k == mt.len && mo.len > 0, "Break on the last entity of the first archetype");
    cover!(N2 < 2 || (k > mt.len && k < mt.len + mo.len), "Break inside the second archetype");
    std::mem::forget(world);
}

/// Queries matching only one archetype (component set / typed entity parameter).
pub fn iter_single<const N1: usize, const N2: usize>(which: u8) {
    let (mut world, mt, mo) = two_states::<N1, N2>();
    let k = sym::any_usize();
    sym::assume(k <= N1 + N2 + 1);
    let mut v = Visits::<N1, N2>::new(k);
    match which {
        0 => {
            ecs_iter!(world, |e: &Entity<ArchTri>, p: &P, pad: &Pad, _z: &Zs| v.visit(&mt, &mo, e.into_any().raw(), p.0, Some(pad.1)));
            v.check(&mt, &mo, true, false);
        }
        1 => {
            ecs_iter_borrow!(world, |e: &Entity<_>, q: &Q, p: &P| v.visit(&mt, &mo, e.into_any().raw(), p.0, Some(q.0 as u32)));
            v.check(&mt, &mo, false, true);
        }
        2 => {
            ecs_iter_borrow!(world, |e: &EntityAny, pad: &mut Pad, p: &P| v.visit(&mt, &mo, e.raw(), p.0, Some(pad.1)));
            v.check(&mt, &mo, true, false);
        }
        _ => {
            ecs_iter!(world, |e: &Entity<ArchOther>, p: &mut P| v.visit(&mt, &mo, e.into_any().raw(), p.0, None));
            v.check(&mt, &mo, false, true);
        }
    }
    cover!(k == 0 && mt.len == N1 && mo.len == N2, "both archetypes full, no Break");
    cover!(mt.len == 0 && mo.len == 0, "both archetypes empty");
    std::mem::forget(world);
}

/// The non-macro iteration paths of one archetype: item count == len, item i is dense cell i.
pub fn arch_paths<M: MArch + Paths, const N: usize>() {
    let m: Model<N> = Model::any_inv();
    let mut world = load::<M, N>(&m);
    let a = M::arch_mut(&mut world);
    assert!(a.len() == m.len && a.is_empty() == (m.len == 0));
    // entities()
    let ents = a.entities();
    assert!(ents.len() == m.len, "entities() has another length than len()");
    let mut i = 0;
    while i < N {
        if i < m.len {
            assert!(ents[i].into_any().raw() == m.handle_raw(M::ID, i), "entities()[i] is not the handle of dense cell i");
        }
        i += 1;
    }
    // Archetype::iter / iter_mut: exactly len items, i-th item = dense cell i, each live handle once
    let mut n = 0;
    let mut seen = [0u8; N];
    for item in a.iter() {
        let raw = M::iter_item_raw(&item);
        let d = m.lookup(M::ID, raw.0 .0, raw.0 .1);
        assert!(d.is_some(), "Archetype::iter presented a handle that is not live");
        assert!(raw.1 == m.val[d.unwrap()], "Archetype::iter paired a handle with another entity's component");
        seen[d.unwrap()] += 1;
        n += 1;
        assert!(n <= N, "Archetype::iter yields more items than capacity");
    }
    assert!(n == m.len, "Archetype::iter yields another number of items than len()");
    let mut i = 0;
    while i < N {
        assert!(seen[i] == if i < m.len { 1 } else { 0 }, "Archetype::iter did not present each live entity exactly once");
        i += 1;
    }
    let mut n2 = 0;
    for item in a.iter_mut() {
        let raw = M::iter_mut_item_raw(&item);
        let d = m.lookup(M::ID, raw.0 .0, raw.0 .1);
        assert!(d.is_some() && raw.1 == m.val[d.unwrap()], "Archetype::iter_mut item is not a live entity with its own component");
        n2 += 1;
        assert!(n2 <= N);
    }
    assert!(n2 == m.len, "Archetype::iter_mut yields another number of items than len()");
    // positioned access (nth / skip): item k is dense cell k — handle AND components
    let k = sym::any_usize();
    sym::assume(k <= N);
    match a.iter().nth(k) {
        None => assert!(k >= m.len, "Archetype::iter().nth(k) ended early"),
        Some(item) => {
            let raw = M::iter_item_raw(&item);
            assert!(k < m.len && raw.0 == m.handle_raw(M::ID, k) && raw.1 == m.val[k], "Archetype::iter().nth(k) does not pair the handle of dense cell k with its own components");
        }
    }
    let mut cnt = 0;
    for item in a.iter_mut().skip(k) {
        let raw = M::iter_mut_item_raw(&item);
        assert!(raw.0 == m.handle_raw(M::ID, k + cnt) && raw.1 == m.val[k + cnt], "Archetype::iter_mut().skip(k) pairs a handle with another entity's components");
        cnt += 1;
        assert!(cnt <= N);
    }
    assert!(cnt == if k < m.len { m.len - k } else { 0 }, "Archetype::iter_mut().skip(k) yields another number of items");
    cover!(m.len == N, "full archetype");
    cover!(m.len == 0, "empty archetype");
    std::mem::forget(world);
}

/// Internal iteration and the other provided Iterator methods an implementation may override
/// (fold / for_each / last / count / size_hint): same items, same pairing, same order as dense cells.
pub fn arch_internal<M: MArch + Paths, const N: usize>() {
    let m: Model<N> = Model::any_inv();
    let mut world = load::<M, N>(&m);
    let a = M::arch_mut(&mut world);
    let (lo, hi) = a.iter().size_hint();
    assert!(lo <= m.len && (hi.is_none() || hi.unwrap() >= m.len), "Archetype::iter().size_hint() excludes the real length");
    let (lo, hi) = a.iter_mut().size_hint();
    assert!(lo <= m.len && (hi.is_none() || hi.unwrap() >= m.len), "Archetype::iter_mut().size_hint() excludes the real length");
    assert!(a.iter().count() == m.len, "Archetype::iter().count() differs from len()");
    assert!(a.iter_mut().count() == m.len, "Archetype::iter_mut().count() differs from len()");
    let mut idx = 0;
    a.iter().for_each(|item| {
        let raw = M::iter_item_raw(&item);
        assert!(idx < m.len && raw.0 == m.handle_raw(M::ID, idx) && raw.1 == m.val[idx], "Archetype::iter().for_each does not pair dense cell i's handle with its own components");
        idx += 1;
    });
    assert!(idx == m.len, "Archetype::iter().for_each visits another number of items than len()");
    let mut idx = 0;
    a.iter_mut().for_each(|item| {
        let raw = M::iter_mut_item_raw(&item);
        assert!(idx < m.len && raw.0 == m.handle_raw(M::ID, idx) && raw.1 == m.val[idx], "Archetype::iter_mut().for_each does not pair dense cell i's handle with its own components");
        idx += 1;
    });
    assert!(idx == m.len, "Archetype::iter_mut().for_each visits another number of items than len()");
    let folded = a.iter().fold(0usize, |acc, item| {
        let raw = M::iter_item_raw(&item);
        assert!(acc < m.len && raw.0 == m.handle_raw(M::ID, acc) && raw.1 == m.val[acc], "Archetype::iter().fold does not pair dense cell i's handle with its own components");
        acc + 1
    });
    assert!(folded == m.len);
    match a.iter().last() {
        None => assert!(m.len == 0, "Archetype::iter().last() is None on a populated archetype"),
        Some(item) => {
            let raw = M::iter_item_raw(&item);
            assert!(m.len > 0 && raw.0 == m.handle_raw(M::ID, m.len - 1) && raw.1 == m.val[m.len - 1], "Archetype::iter().last() is not the last dense cell with its own components");
        }
    }
    match a.iter_mut().last() {
        None => assert!(m.len == 0, "Archetype::iter_mut().last() is None on a populated archetype"),
        Some(item) => {
            let raw = M::iter_mut_item_raw(&item);
            assert!(m.len > 0 && raw.0 == m.handle_raw(M::ID, m.len - 1) && raw.1 == m.val[m.len - 1], "Archetype::iter_mut().last() is not the last dense cell with its own components");
        }
    }
    // a partially consumed iterator continues where it stopped
    {
        let mut it = a.iter();
        let first_is_some = it.next().is_some();
        assert!(first_is_some == (m.len > 0));
        let mut idx = 1;
        it.for_each(|item| {
            let raw = M::iter_item_raw(&item);
            assert!(idx < m.len && raw.0 == m.handle_raw(M::ID, idx) && raw.1 == m.val[idx], "next() followed by for_each does not continue with dense cell 1");
            idx += 1;
        });
        assert!(m.len == 0 || idx == m.len);
    }
    cover!(m.len == N, "full archetype");
    cover!(m.len == 0, "empty archetype");
    std::mem::forget(world);
}

/// Slice accessors: lengths == len, cell i of every column belongs to dense entity i.
pub fn slice_paths<const N: usize>() {
    let m: Model<N> = Model::any_inv();
    let mut world = load::<Tri, N>(&m);
    let a = &mut world.arch_tri;
    assert!(a.get_slice::<P>().len() == m.len && a.get_slice::<Pad>().len() == m.len && a.get_slice::<Zs>().len() == m.len, "get_slice length");
    assert!(a.get_slice_mut::<Pad>().len() == m.len, "get_slice_mut length");
    assert!(a.borrow_slice::<P>().len() == m.len && a.borrow_slice_mut::<Pad>().len() == m.len, "borrow_slice length");
    {
        let s = a.get_all_slices_mut();
        assert!(s.entity.len() == m.len && s.p.len() == m.len && s.pad.len() == m.len && s.zs.len() == m.len, "get_all_slices_mut length");
        let mut i = 0;
        while i < N {
            if i < m.len {
                assert!(s.entity[i].into_any().raw() == m.handle_raw(Tri::ID, i), "slices.entity[i]");
                assert!(s.p[i].0 == m.val[i] && s.pad[i] == Pad(m.val[i] ^ 0x5a, m.aux[i]), "slices columns [i]");
            }
            i += 1;
        }
    }
    let mut i = 0;
    while i < N {
        if i < m.len {
            assert!(a.borrow_slice::<P>()[i].0 == m.val[i] && a.borrow_slice::<Pad>()[i].1 == m.aux[i], "borrow_slice [i]");
            assert!(a.get_slice::<P>()[i].0 == m.val[i] && a.get_slice_mut::<Pad>()[i].1 == m.aux[i], "get_slice [i]");
        }
        i += 1;
    }
    cover!(m.len == N, "full archetype");
    cover!(m.len == 0, "empty archetype");
    std::mem::forget(world);
}

/// One structural step (destroy of an arbitrary live entity, or a create) from an arbitrary Inv
/// state, then a full pass: exactly the entities that should be alive are presented, each once,
/// with the handle AND the components they had before the step (expectation built from the
/// pre-state model, not from the post-state).
pub fn iter_after_step<const N: usize>(op: u8, path: u8) {
    let m: Model<N> = Model::any_inv();
    assume_no_overflow(&m);
    let mut world = load::<Tri, N>(&m);
    let mut gone = usize::MAX;
    let mut added: Option<((u32, u32), u8)> = None;
    if op == 0 {
        let d = sym::any_usize();
        sym::assume(d < m.len);
        let (k0, g0) = m.handle_raw(Tri::ID, d);
        assert!(world.destroy(EntityAny::from_raw((k0, g0)).ok().unwrap()).is_some());
        gone = d;
    } else {
        sym::assume(m.len < N);
        let v = sym::any_u8();
        let e = world.create::<ArchTri>((P(v), Pad(v ^ 0x5a, 7), Zs));
        added = Some((e.into_any().raw(), v));
    }
    let mut seen = [0u8; N];
    let mut seen_added = 0u8;
    let mut calls = 0usize;
    let mut visit = |raw: (u32, u32), p: u8| {
        calls += 1;
        if let Some((ar, av)) = added {
            if raw == ar {
                assert!(p == av, "iteration paired the new entity with other components");
                seen_added += 1;
                return;
            }
        }
        // must be a pre-state entity other than the destroyed one, with its own value
        let mut found = false;
        let mut i = 0;
        while i < N {
            if i < m.len && i != gone && raw == m.handle_raw(Tri::ID, i) {
                assert!(p == m.val[i], "iteration paired a handle with another entity's components after a structural change");
                seen[i] += 1;
                found = true;
            }
            i += 1;
        }
        assert!(found, "iteration presented a handle that is not a live entity after a structural change");
    };
    match path {
        0 => ecs_iter!(world, |e: &EntityAny, p: &P| visit(e.raw(), p.0)),
        1 => ecs_iter_borrow!(world, |e: &Entity<ArchTri>, p: &P| visit(e.into_any().raw(), p.0)),
        2 => {
            for (e, p, _pad, _z) in world.arch_tri.iter() {
                visit(e.into_any().raw(), p.0);
            }
        }
        _ => {
            let n = world.arch_tri.len();
            let mut i = 0;
            while i < N {
                if i < n {
                    let raw = world.arch_tri.entities()[i].into_any().raw();
                    let p = world.arch_tri.get_slice::<P>()[i].0;
                    visit(raw, p);
                }
                i += 1;
            }
        }
    }
    let expect = if op == 0 { m.len - 1 } else { m.len + 1 };
    assert!(calls == expect && world.arch_tri.len() == expect, "number of items differs from the number of live entities after a structural change");
    let mut i = 0;
    while i < N {
        assert!(seen[i] == if i < m.len && i != gone { 1 } else { 0 }, "a live entity was not presented exactly once after a structural change");
        i += 1;
    }
    assert!(seen_added == if added.is_some() { 1 } else { 0 }, "the new entity was not presented exactly once");
    cover!(op != 0 || (gone + 1 < m.len && m.ent_slot[gone] as usize != gone), "destroyed a non-last entity whose slot position differs from its dense index");
    cover!(op != 0 || gone + 1 == m.len, "destroyed the last dense entity");
    std::mem::forget(world);
}

harness! { fn c06_after_destroy_iter_3() unwind(5) { iter_after_step::<3>(0, 0) } }
harness! { fn c06_after_destroy_iter_borrow_3() unwind(5) { iter_after_step::<3>(0, 1) } }
harness! { fn c06_after_destroy_arch_iter_3() unwind(6) { iter_after_step::<3>(0, 2) } }
harness! { fn c06_after_destroy_slices_4() unwind(6) { iter_after_step::<4>(0, 3) } }
harness! { fn c06_after_create_iter_3() unwind(5) { iter_after_step::<3>(1, 0) } }
harness! { fn c06_after_create_slices_3() unwind(5) { iter_after_step::<3>(1, 3) } }

harness! { fn c06_iter_shared_2_2() unwind(4) { iter_shared::<2, 2>(false) } }
harness! { fn c06_iter_borrow_shared_2_2() unwind(4) { iter_shared::<2, 2>(true) } }
harness! { fn c06_iter_shared_3_2() unwind(5) { iter_shared::<3, 2>(false) } }
harness! { fn c06_iter_borrow_shared_2_3() unwind(5) { iter_shared::<2, 3>(true) } }
harness! { fn c06_iter_shared_3_3() unwind(5) { iter_shared::<3, 3>(false) } }
harness! { fn c06_iter_tri_only_3_2() unwind(5) { iter_single::<3, 2>(0) } }
harness! { fn c06_iter_borrow_other_only_2_3() unwind(5) { iter_single::<2, 3>(1) } }
harness! { fn c06_iter_borrow_tri_mut_3_1() unwind(5) { iter_single::<3, 1>(2) } }
harness! { fn c06_iter_other_typed_1_3() unwind(5) { iter_single::<1, 3>(3) } }
harness! { fn c06_arch_iter_tri_3() unwind(8) { arch_paths::<Tri, 3>() } }
harness! { fn c06_arch_iter_other_3() unwind(8) { arch_paths::<Other, 3>() } }
harness! { fn c06_arch_iter_tri_4() unwind(8) { arch_paths::<Tri, 4>() } }
harness! { fn c06_arch_iter_zf_3() unwind(8) { arch_paths::<crate::worlds::wzf::ZfM, 3>() } }
harness! { fn c06_arch_internal_tri_3() unwind(8) { arch_internal::<Tri, 3>() } }
harness! { fn c06_arch_internal_other_2() unwind(8) { arch_internal::<Other, 2>() } }
harness! { fn c06_arch_internal_zf_3() unwind(8) { arch_internal::<crate::worlds::wzf::ZfM, 3>() } }
harness! { fn c06_slices_tri_3() unwind(5) { slice_paths::<3>() } }
harness! { fn c06_slices_tri_4() unwind(6) { slice_paths::<4>() } }
