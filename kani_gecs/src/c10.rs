//! C10 — a panic escaping any operation leaves the world consistent and memory-safe.
//! Kani has no unwinding, so "after the panic" is decided as "AT the panic point": the
//! panicking primitive is stubbed (-Z stubbing) by a function that is identical below the
//! overflow value and, at it, inspects the world through a stashed pointer and ends the path.
//! Natively (replay) there is no stub: the operation runs under catch_unwind and the same
//! oracle is evaluated on the world the unwinding left behind, with drop counters.

use crate::model::*;
use crate::steps::*;
use crate::sym;
use crate::worlds::{w1, w3, wt};
use crate::{cover, harness, native_only};
use gecs::prelude::*;
use gecs::version::{ArchetypeVersion, SlotVersion};

pub static mut WORLD: *mut u8 = std::ptr::null_mut();
pub static mut PRE: *const u8 = std::ptr::null();
pub static mut TARGET: usize = usize::MAX;
pub static mut INSPECT: Option<unsafe fn()> = None;
pub static mut HITS: u8 = 0;

/// The oracle at a panic point inside a removal of pre-state entity `TARGET`:
/// the storage satisfies Inv and every pre-state entity is fully present (same handle, all
/// columns) — or, for the target only, fully absent; len agrees with what is present.
pub unsafe fn inspect_storage<M: MArch, const N: usize>() {
    let world = &mut *(WORLD as *mut M::World);
    let pre = &*(PRE as *const Model<N>);
    let now: Model<N> = read::<M, N>(world);
    assert!(now.inv(), "C10: representation invariant broken at a panic point (entity half removed)");
    let mut present = 0;
    let mut i = 0;
    while i < N {
        if i < pre.len {
            let (k, g) = pre.handle_raw(M::ID, i);
            match now.lookup(M::ID, k, g) {
                Some(j) => {
                    present += 1;
                    assert!(now.val[j] == pre.val[i] && now.ok[j] && (now.aux[j] ^ pre.aux[i]) & M::AUX_MASK == 0, "C10: an entity's components changed at a panic point");
                }
                None => assert!(i == TARGET, "C10: an entity other than the one being removed is lost at a panic point"),
            }
        }
        i += 1;
    }
    assert!(now.len == present, "C10: len disagrees with the entities present at a panic point");
    // feature `events`: exactly the entities that are really gone have been logged as destroyed — a
    // removal that panics and leaves its entity alive must not have logged it (logs start empty here)
    #[cfg(feature = "events")]
    {
        let a = M::arch(world);
        assert!(a.iter_destroyed().count() + present == pre.len, "C10/C17: at a panic point the destroyed log disagrees with the entities really gone (a destroy that panicked logged its still-alive entity)");
        assert!(a.iter_created().count() == 0, "C10/C17: a removal logged a creation");
    }
    cover!(true, "overflow point inside destroy inspected");
}

pub fn stub_slot_next(v: &SlotVersion) -> SlotVersion {
    let raw: u32 = unsafe { std::mem::transmute_copy(v) };
    if raw == u32::MAX {
        unsafe {
            HITS += 1;
            if let Some(f) = INSPECT {
                f();
            }
        }
        sym::assume(false);
    }
    unsafe { std::mem::transmute::<u32, SlotVersion>(raw + 1) }
}

pub fn stub_arch_next(v: &ArchetypeVersion) -> ArchetypeVersion {
    let raw: u32 = unsafe { std::mem::transmute_copy(v) };
    if raw == u32::MAX {
        unsafe {
            HITS += 1;
            if let Some(f) = INSPECT {
                f();
            }
        }
        sym::assume(false);
    }
    unsafe { std::mem::transmute::<u32, ArchetypeVersion>(raw + 1) }
}

/// Runs `op` on the world. Under Kani the stubs inspect the world at the overflow point;
/// natively the real panic unwinds, is caught, and the oracle runs on what is left.
fn run_guarded<M: MArch, const N: usize>(world: &mut M::World, pre: &Model<N>, target: usize, op: impl FnOnce(&mut M::World)) {
    unsafe {
        WORLD = world as *mut M::World as *mut u8;
        PRE = pre as *const Model<N> as *const u8;
        TARGET = target;
        INSPECT = Some(inspect_storage::<M, N>);
        HITS = 0;
    }
    #[cfg(kani)]
    {
        op(unsafe { &mut *(WORLD as *mut M::World) });
    }
    #[cfg(not(kani))]
    {
        let w = unsafe { &mut *(WORLD as *mut M::World) };
        let r = std::panic::catch_unwind(std::panic::AssertUnwindSafe(|| op(w)));
        if r.is_err() {
            unsafe {
                HITS += 1;
                inspect_storage::<M, N>();
            }
        }
    }
}

/// destroy (any key kind) with the slot generation and/or the archetype version at u32::MAX.
pub fn overflow_in_destroy<M: MArch, const N: usize>(kind: u8) {
    let m: Model<N> = Model::any_inv();
    let k = sym::any_usize();
    sym::assume(k < m.len);
    let p = m.ent_slot[k] as usize;
    sym::assume(m.slot_ver[p] == u32::MAX || m.version == u32::MAX);
    let mut world = load::<M, N>(&m);
    #[cfg(feature = "events")]
    M::reserve_events(M::arch_mut(&mut world), 4);
    let (key, ver) = m.handle_raw(M::ID, k);
    let any = EntityAny::from_raw((key, ver)).ok().unwrap();
    let typed: Entity<M::Arch> = any.try_into().ok().unwrap();
    let d = direct_of::<M>(k, m.version);
    run_guarded::<M, N>(&mut world, &m, k, |w| match kind {
        0 => {
            let _ = M::arch_mut(w).destroy(typed).map(|c| M::un(c));
        }
        1 => {
            let _ = w.destroy(any);
        }
        2 => {
            let _ = M::arch_mut(w).destroy(d).map(|c| M::un(c));
        }
        _ => {
            let da: EntityDirectAny = d.into();
            let _ = w.destroy(da);
        }
    });
    unsafe {
        cover!(HITS == 0, "UNREACHABLE: destroy completed although a counter was at u32::MAX");
    }
    std::mem::forget(world);
}

/// Witness that the overflow point is reached at all (vacuity guard for the harness above).
pub fn overflow_point_witness<M: MArch, const N: usize>() {
    let m: Model<N> = Model::any_inv();
    let k = sym::any_usize();
    sym::assume(k < m.len);
    let mut world = load::<M, N>(&m);
    let (key, ver) = m.handle_raw(M::ID, k);
    let any = EntityAny::from_raw((key, ver)).ok().unwrap();
    unsafe {
        INSPECT = None;
        HITS = 0;
    }
    let _ = world.destroy(any);
    std::mem::forget(world);
}

pub fn stub_slot_next_witness(v: &SlotVersion) -> SlotVersion {
    let raw: u32 = unsafe { std::mem::transmute_copy(v) };
    cover!(raw == u32::MAX, "slot generation overflow point reached");
    sym::assume(raw != u32::MAX);
    unsafe { std::mem::transmute::<u32, SlotVersion>(raw + 1) }
}

pub fn stub_arch_next_witness(v: &ArchetypeVersion) -> ArchetypeVersion {
    let raw: u32 = unsafe { std::mem::transmute_copy(v) };
    cover!(raw == u32::MAX, "archetype version overflow point reached");
    sym::assume(raw != u32::MAX);
    unsafe { std::mem::transmute::<u32, ArchetypeVersion>(raw + 1) }
}

/// ecs_iter_destroy! hitting the overflow in the middle of the loop: entities destroyed
/// earlier in the loop are legitimately gone; the one being removed is whole or absent;
/// everything else is whole.
pub fn overflow_in_iter_destroy<const N: usize>() {
    use w1::*;
    let m: Model<N> = Model::any_inv();
    let mut i = 0;
    while i < N {
        sym::assume(m.val[i] == i as u8);
        i += 1;
    }
    let mut world = load::<Foo, N>(&m);
    let flags = sym::arr_bool::<N>();
    unsafe {
        WORLD = &mut world as *mut W1 as *mut u8;
        PRE = &m as *const Model<N> as *const u8;
        INSPECT = Some(inspect_iter_destroy::<N>);
        HITS = 0;
        FLAGS = flags.as_ptr();
        CURRENT = usize::MAX;
    }
    let w = unsafe { &mut *(WORLD as *mut W1) };
    #[cfg(kani)]
    {
        ecs_iter_destroy!(w, |c: &CA| {
            unsafe { CURRENT = c.0 as usize };
            if flags[c.0 as usize] { EcsStepDestroy::ContinueDestroy } else { EcsStepDestroy::Continue }
        });
    }
    #[cfg(not(kani))]
    {
        let r = std::panic::catch_unwind(std::panic::AssertUnwindSafe(|| {
            ecs_iter_destroy!(w, |c: &CA| {
                unsafe { CURRENT = c.0 as usize };
                if flags[c.0 as usize] { EcsStepDestroy::ContinueDestroy } else { EcsStepDestroy::Continue }
            });
        }));
        if r.is_err() {
            unsafe {
                HITS += 1;
                inspect_iter_destroy::<N>();
            }
        }
    }
    unsafe {
        cover!(HITS == 0, "loop completed without reaching an overflow");
    }
    std::mem::forget(world);
}

pub static mut FLAGS: *const bool = std::ptr::null();
pub static mut CURRENT: usize = usize::MAX;

/// Oracle at an overflow point inside ecs_iter_destroy! (visiting order is not assumed):
/// Inv; every pre-state entity that was not flagged is whole; the entity being visited is whole
/// or absent; flagged ones may already be gone (whole or absent, never half).
pub unsafe fn inspect_iter_destroy<const N: usize>() {
    use w1::*;
    let world = &mut *(WORLD as *mut W1);
    let pre = &*(PRE as *const Model<N>);
    let now: Model<N> = read::<Foo, N>(world);
    assert!(now.inv(), "C10: representation invariant broken at a panic point inside ecs_iter_destroy!");
    let mut present = 0;
    let mut i = 0;
    while i < N {
        if i < pre.len {
            let (k, g) = pre.handle_raw(Foo::ID, i);
            match now.lookup(Foo::ID, k, g) {
                Some(j) => {
                    present += 1;
                    assert!(now.val[j] == pre.val[i], "C10: an entity's components changed at a panic point");
                }
                None => assert!(*FLAGS.add(i), "C10: an entity that was not flagged for destruction is lost at a panic point"),
            }
        }
        i += 1;
    }
    assert!(now.len == present, "C10: len disagrees with the entities present at a panic point");
    cover!(present < pre.len, "overflow point inside ecs_iter_destroy! inspected after an earlier destruction in the same loop");
}

/// Clone::clone / Drop::drop callbacks (user code that may panic at its k-th call): at every
/// call the SOURCE world is intact (clone) and no token has been dropped twice (drop).
pub fn callbacks_clone_drop<const N: usize>() {
    use wt::*;
    reset();
    let m: Model<N> = Model::any_inv();
    let mut i = 0;
    while i < N {
        sym::assume(m.val[i] == i as u8);
        i += 1;
    }
    let mut world = load::<TokM, N>(&m);
    unsafe {
        WORLD = &mut world as *mut WT as *mut u8;
        PRE = &m as *const Model<N> as *const u8;
        CB_CALLS = 0;
        ON_CLONE = Some(at_clone::<N>);
    }
    let c = unsafe { (*(WORLD as *mut WT)).clone() };
    unsafe {
        assert!(CB_CALLS as usize == m.len, "Clone::clone not called once per live component");
        ON_CLONE = None;
        CB_CALLS = 0;
        ON_DROP = Some(at_drop);
    }
    drop(c);
    unsafe { assert!(CB_CALLS as usize == m.len, "Drop::drop not called once per live component of the clone") };
    drop(world);
    unsafe {
        assert!(CB_CALLS as usize == 2 * m.len, "Drop::drop not called once per live component");
        ON_DROP = None;
    }
    cover!(m.len == N, "full archetype");
}

pub static mut CB_CALLS: u8 = 0;

fn at_clone<const N: usize>(_id: u8) {
    unsafe {
        CB_CALLS += 1;
        // a panic here unwinds out of Storage::clone: the SOURCE world must be intact right now
        let world = &mut *(WORLD as *mut wt::WT);
        let pre = &*(PRE as *const Model<N>);
        let now: Model<N> = read::<wt::TokM, N>(world);
        assert!(now.inv(), "C10: source world broken at a Clone::clone callback");
        assert_unchanged::<wt::TokM, N>(pre, &now);
    }
}

fn at_drop(id: u8) {
    unsafe {
        CB_CALLS += 1;
        // at the k-th Drop callback exactly k-1 tokens have been dropped, each once, and the one
        // being dropped now has not been dropped before (a panic here can never double-drop)
        let mut n = 0u8;
        let mut i = 0;
        while i < 16 {
            assert!(wt::DROPS[i] <= 1, "C10: a token was dropped twice before a Drop callback");
            n += wt::DROPS[i];
            i += 1;
        }
        assert!(n + 1 == CB_CALLS, "C10: drop bookkeeping wrong at a Drop callback");
        assert!(wt::DROPS[id as usize] == 0, "C10: token dropped again");
    }
}

/// `clone_from` (provided by std unless the crate overrides it to recycle the target's
/// allocations): every `Clone::clone` call is user code that may panic. At every such call the
/// TARGET world must be droppable and usable: Inv, and every component readable in it is alive
/// (not yet dropped) and stored once.
pub fn callbacks_clone_from<const N: usize>() {
    use wt::*;
    reset();
    let s: Model<N> = Model::any_inv();
    let t: Model<N> = Model::any_inv();
    let mut i = 0;
    while i < N {
        sym::assume(s.val[i] == i as u8);
        sym::assume(t.val[i] == 4 + i as u8);
        i += 1;
    }
    let src = load::<TokM, N>(&s);
    let mut dst = load::<TokM, N>(&t);
    let world_level = sym::any_bool();
    unsafe {
        WORLD = &mut dst as *mut WT as *mut u8;
        CB_CALLS = 0;
        ON_CLONE = Some(at_clone_from::<N>);
        if world_level {
            (*(WORLD as *mut WT)).clone_from(&src);
        } else {
            (*(WORLD as *mut WT)).arch_tok.clone_from(&src.arch_tok);
        }
        assert!(CB_CALLS as usize == s.len, "Clone::clone not called once per live source component");
        ON_CLONE = None;
    }
    cover!(N < 2 || (t.len > s.len && s.len > 0), "non-empty target longer than the source");
    cover!(N < 2 || (t.len > 0 && t.len < s.len), "non-empty target shorter than the source");
    std::mem::forget(src);
    std::mem::forget(dst);
}

fn at_clone_from<const N: usize>(_id: u8) {
    unsafe {
        CB_CALLS += 1;
        let world = &mut *(WORLD as *mut wt::WT);
        let now: Model<N> = read::<wt::TokM, N>(world);
        assert!(now.inv(), "C10: target of clone_from broken at a Clone::clone callback");
        let mut i = 0;
        while i < N {
            if i < now.len {
                let id = now.val[i] as usize;
                assert!(id < 16 && wt::DROPS[id] == 0, "C10: a component already dropped is still readable in the target of clone_from at a Clone::clone callback");
                let mut j = 0;
                while j < N {
                    if j < i {
                        assert!(now.val[j] != now.val[i], "C10: a component is stored twice in the target of clone_from at a Clone::clone callback");
                    }
                    j += 1;
                }
            }
            i += 1;
        }
    }
}

pub static mut DROP_TARGET: usize = usize::MAX;

/// A component's `Drop::drop` running INSIDE a destroy (keys that discard the components:
/// `World::destroy(EntityAny | EntityDirectAny)`, `ecs_iter_destroy!`) is user code that may
/// panic: when it runs the destroy's bookkeeping must be complete — Inv, the target entity fully
/// absent, every other entity whole, the value being dropped no longer readable.
pub fn drop_point_destroy<const N: usize>(kind: u8) {
    use wt::*;
    reset();
    let m: Model<N> = Model::any_inv();
    assume_no_overflow(&m);
    let mut i = 0;
    while i < N {
        sym::assume(m.val[i] == i as u8);
        i += 1;
    }
    let mut world = load::<TokM, N>(&m);
    let k = sym::any_usize();
    sym::assume(k < m.len);
    let (key, ver) = m.handle_raw(TokM::ID, k);
    let any = EntityAny::from_raw((key, ver)).ok().unwrap();
    unsafe {
        WORLD = &mut world as *mut WT as *mut u8;
        PRE = &m as *const Model<N> as *const u8;
        DROP_TARGET = k;
        CB_CALLS = 0;
        ON_DROP = Some(at_drop_in_destroy::<N>);
        let w = &mut *(WORLD as *mut WT);
        match kind {
            0 => assert!(w.destroy(any).is_some()),
            1 => {
                let d: EntityDirectAny = direct_of::<TokM>(k, m.version).into();
                assert!(w.destroy(d).is_some());
            }
            _ => {
                ecs_iter_destroy!(w, |t: &Tok| {
                    if t.0 as usize == k { EcsStepDestroy::ContinueDestroy } else { EcsStepDestroy::Continue }
                });
            }
        }
        ON_DROP = None;
        assert!(CB_CALLS == 1, "the discarded components were not dropped exactly once inside the destroy");
    }
    cover!(N < 2 || k + 1 < m.len, "destroyed a non-last entity");
    std::mem::forget(world);
}

fn at_drop_in_destroy<const N: usize>(id: u8) {
    unsafe {
        CB_CALLS += 1;
        let world = &mut *(WORLD as *mut wt::WT);
        let pre = &*(PRE as *const Model<N>);
        assert!(id as usize == DROP_TARGET, "C10: destroy dropped another entity's component");
        let now: Model<N> = read::<wt::TokM, N>(world);
        assert_destroyed::<wt::TokM, N>(pre, &now, DROP_TARGET);
        let mut i = 0;
        while i < N {
            if i < now.len {
                assert!(now.val[i] != id, "C10: the component being dropped inside destroy is still readable in the world");
            }
            i += 1;
        }
    }
}

/// Capacity overflow panics: `create` at len == capacity == 2^24 and `with_capacity(> 2^24)`
/// panic before touching anything.
pub fn capacity_overflow_create() {
    use w1::*;
    let mut world = Foo::new_world(0);
    Foo::set_capacity(&mut world.arch_foo, MAX_CAP);
    Foo::set_raw(&mut world.arch_foo, 1, MAX_CAP, FREE_END);
    let _ = world.create::<ArchFoo>((CA(3),));
    cover!(true, "UNREACHABLE: create returned at the 2^24 limit");
    std::mem::forget(world);
}

pub fn capacity_overflow_with_capacity() {
    use w1::*;
    let n = sym::any_usize();
    sym::assume(n > MAX_CAP);
    let world = ArchFoo::with_capacity(n);
    cover!(true, "UNREACHABLE: with_capacity beyond 2^24 returned");
    std::mem::forget(world);
}

harness! {
    #[cfg_attr(kani, kani::stub(gecs::version::SlotVersion::next, stub_slot_next))]
    #[cfg_attr(kani, kani::stub(gecs::version::ArchetypeVersion::next, stub_arch_next))]
    fn c10_overflow_destroy_typed_foo_3() unwind(5) { overflow_in_destroy::<w1::Foo, 3>(0) }
}
harness! {
    #[cfg_attr(kani, kani::stub(gecs::version::SlotVersion::next, stub_slot_next))]
    #[cfg_attr(kani, kani::stub(gecs::version::ArchetypeVersion::next, stub_arch_next))]
    fn c10_overflow_destroy_any_foo_3() unwind(5) { overflow_in_destroy::<w1::Foo, 3>(1) }
}
harness! {
    #[cfg_attr(kani, kani::stub(gecs::version::SlotVersion::next, stub_slot_next))]
    #[cfg_attr(kani, kani::stub(gecs::version::ArchetypeVersion::next, stub_arch_next))]
    fn c10_overflow_destroy_direct_foo_2() unwind(4) { overflow_in_destroy::<w1::Foo, 2>(2) }
}
harness! {
    #[cfg_attr(kani, kani::stub(gecs::version::SlotVersion::next, stub_slot_next))]
    #[cfg_attr(kani, kani::stub(gecs::version::ArchetypeVersion::next, stub_arch_next))]
    fn c10_overflow_destroy_directany_foo_2() unwind(4) { overflow_in_destroy::<w1::Foo, 2>(3) }
}
harness! {
    #[cfg_attr(kani, kani::stub(gecs::version::SlotVersion::next, stub_slot_next))]
    #[cfg_attr(kani, kani::stub(gecs::version::ArchetypeVersion::next, stub_arch_next))]
    fn c10_overflow_destroy_any_tri_2() unwind(4) { overflow_in_destroy::<w3::Tri, 2>(1) }
}
harness! {
    #[cfg_attr(kani, kani::stub(gecs::version::SlotVersion::next, stub_slot_next_witness))]
    #[cfg_attr(kani, kani::stub(gecs::version::ArchetypeVersion::next, stub_arch_next_witness))]
    fn c10_overflow_point_witness_foo_3() unwind(5) { overflow_point_witness::<w1::Foo, 3>() }
}
harness! {
    #[cfg_attr(kani, kani::stub(gecs::version::SlotVersion::next, stub_slot_next))]
    #[cfg_attr(kani, kani::stub(gecs::version::ArchetypeVersion::next, stub_arch_next))]
    fn c10_overflow_iter_destroy_foo_2() unwind(4) { overflow_in_iter_destroy::<2>() }
}
harness! {
    #[cfg_attr(kani, kani::stub(gecs::version::SlotVersion::next, stub_slot_next))]
    #[cfg_attr(kani, kani::stub(gecs::version::ArchetypeVersion::next, stub_arch_next))]
    fn c10_overflow_iter_destroy_foo_3() unwind(5) { overflow_in_iter_destroy::<3>() }
}
harness! { fn c10_callbacks_clone_drop_3() unwind(18) { callbacks_clone_drop::<3>() } }
harness! { fn c10_callbacks_clone_drop_2() unwind(18) { callbacks_clone_drop::<2>() } }
harness! { fn c10_callbacks_clone_from_3() unwind(18) { callbacks_clone_from::<3>() } }
harness! { fn c10_callbacks_clone_from_2() unwind(18) { callbacks_clone_from::<2>() } }
harness! { fn c10_drop_point_destroy_any_3() unwind(18) { drop_point_destroy::<3>(0) } }
harness! { fn c10_drop_point_destroy_directany_2() unwind(18) { drop_point_destroy::<2>(1) } }
harness! { fn c10_drop_point_iter_destroy_2() unwind(18) { drop_point_destroy::<2>(2) } }
harness! { fn c10_capacity_overflow_create() unwind(3) { capacity_overflow_create() } }
harness! { fn c10_capacity_overflow_with_capacity() unwind(3) { capacity_overflow_with_capacity() } }

/// Overflow inside destroy on a world of Drop-counting tokens (C04 + C10): at the panic point the
/// storage is Inv and whole; natively the panic is caught, the same oracle runs on what the
/// unwinding left behind, nothing was dropped by the failed destroy, and dropping the world
/// afterwards drops every token exactly once (a half-removed entity shows as a double drop).
pub fn overflow_in_destroy_tokens<const N: usize>(kind: u8) {
    use wt::*;
    reset();
    let m: Model<N> = Model::any_inv();
    let mut i = 0;
    while i < N {
        sym::assume(m.val[i] == i as u8);
        i += 1;
    }
    let k = sym::any_usize();
    sym::assume(k < m.len);
    let p = m.ent_slot[k] as usize;
    sym::assume(m.slot_ver[p] == u32::MAX || m.version == u32::MAX);
    let mut world = load::<TokM, N>(&m);
    let (key, ver) = m.handle_raw(TokM::ID, k);
    let any = EntityAny::from_raw((key, ver)).ok().unwrap();
    let typed: Entity<ArchTok> = any.try_into().ok().unwrap();
    run_guarded::<TokM, N>(&mut world, &m, k, |w| match kind {
        0 => {
            let _ = w.destroy(any);
        }
        _ => {
            if let Some(c) = w.arch_tok.destroy(typed) {
                std::mem::forget(c);
            }
        }
    });
    unsafe {
        cover!(HITS == 0, "UNREACHABLE: destroy completed although a counter was at u32::MAX");
        // the failed destroy dropped nothing
        let mut i = 0;
        while i < 16 {
            assert!(DROPS[i] == 0, "C04/C10: a destroy that panicked dropped a component");
            i += 1;
        }
    }
    // the world is still usable and owns every token exactly once
    drop(world);
    unsafe {
        let mut i = 0;
        while i < 8 {
            assert!(DROPS[i] == if i < m.len { 1 } else { 0 }, "C04/C10: after a caught overflow panic the world does not own every component exactly once");
            i += 1;
        }
        assert!(ZDROPS as usize == m.len, "C04/C10: zero-sized components not owned exactly once after a caught overflow panic");
    }
}

harness! {
    #[cfg_attr(kani, kani::stub(gecs::version::SlotVersion::next, stub_slot_next))]
    #[cfg_attr(kani, kani::stub(gecs::version::ArchetypeVersion::next, stub_arch_next))]
    fn c10_overflow_destroy_tokens_any_3() unwind(18) { overflow_in_destroy_tokens::<3>(0) }
}
harness! {
    #[cfg_attr(kani, kani::stub(gecs::version::SlotVersion::next, stub_slot_next))]
    #[cfg_attr(kani, kani::stub(gecs::version::ArchetypeVersion::next, stub_arch_next))]
    fn c10_overflow_destroy_tokens_typed_2() unwind(18) { overflow_in_destroy_tokens::<2>(1) }
}

// The k-th `Clone::clone` really panics during `world.clone()` (native only: needs unwinding).
// Confirms the MIR unwind fact of E2: whatever the unwinding drops must have been constructed.
native_only! {
    fn c10_native_clone_panics_at_k() {
        use wt::*;
        reset();
        let k = sym::any_u8();
        sym::assume(k >= 1 && k <= 3);
        let mut world = WT::with_capacity(WTCapacity { arch_tok: 4 });
        let mut i = 0;
        while i < 3 {
            world.create::<ArchTok>((Tok(i), Zt));
            i += 1;
        }
        unsafe {
            PANIC_AT = k;
            CB_CALLS = 0;
            ON_CLONE = Some(panic_at_k);
        }
        let r = std::panic::catch_unwind(std::panic::AssertUnwindSafe(|| world.clone()));
        unsafe { ON_CLONE = None };
        assert!(r.is_err(), "HARNESS-BOUND: the clone did not panic");
        unsafe {
            // only tokens that were actually constructed by Clone::clone may have been dropped
            let mut i = 0;
            while i < 8 {
                assert!(DROPS[8 + i] <= CLONES[i], "C10: unwinding out of clone() dropped a component that was never constructed (uninitialised cell)");
                assert!(DROPS[i] == 0, "C10: unwinding out of clone() dropped a component of the SOURCE world");
                i += 1;
            }
            assert!(ZDROPS <= ZCLONES, "C10: unwinding out of clone() dropped a zero-sized component that was never constructed");
        }
        // the source world is intact, can be cloned again and dropped
        assert!(world.arch_tok.len() == 3);
        let c = world.clone();
        drop(c);
        drop(world);
        unsafe {
            let mut i = 0;
            while i < 3 {
                assert!(DROPS[i] == 1, "C10: source world does not own its components exactly once after a panicking clone");
                i += 1;
            }
        }
    }
}

#[cfg(not(kani))]
static mut PANIC_AT: u8 = 0;
#[cfg(not(kani))]
fn panic_at_k(_id: u8) {
    unsafe {
        CB_CALLS += 1;
        if CB_CALLS == PANIC_AT {
            panic!("user Clone::clone panics at call k");
        }
    }
}

// The k-th `Drop::drop` really panics while the world is dropped (native only: needs unwinding).
// Whatever the unwinding does (leak the rest or keep dropping), no component's destructor may be
// entered twice.
native_only! {
    fn c10_native_drop_panics_at_k() {
        use wt::*;
        reset();
        let k = sym::any_u8();
        sym::assume(k >= 1 && k <= 3);
        let mut world = WT::with_capacity(WTCapacity { arch_tok: 4 });
        let mut i = 0;
        while i < 3 {
            world.create::<ArchTok>((Tok(i), Zt));
            i += 1;
        }
        unsafe {
            PANIC_AT = k;
            CB_CALLS = 0;
            DROP_ENTERED = [0; 16];
            ON_DROP = Some(drop_panics_at_k);
        }
        let r = std::panic::catch_unwind(std::panic::AssertUnwindSafe(|| drop(world)));
        unsafe { ON_DROP = None };
        assert!(r.is_err(), "HARNESS-BOUND: dropping the world did not panic");
        unsafe {
            let mut i = 0;
            while i < 16 {
                assert!(DROP_ENTERED[i] <= 1, "C10: after a destructor panicked, unwinding out of the world's drop entered a component's destructor a second time");
                i += 1;
            }
        }
    }
}

#[cfg(not(kani))]
static mut DROP_ENTERED: [u8; 16] = [0; 16];
#[cfg(not(kani))]
fn drop_panics_at_k(id: u8) {
    unsafe {
        CB_CALLS += 1;
        DROP_ENTERED[id as usize] += 1;
        if DROP_ENTERED[id as usize] > 1 {
            // report instead of panicking inside an unwinding destructor (that would abort)
            return;
        }
        if CB_CALLS == PANIC_AT {
            panic!("user Drop::drop panics at call k");
        }
    }
}

/// The user's `Into<Components>` conversion (user code that may panic) runs while the storage is
/// in its between-operations state: inspected from inside the conversion, the storage equals
/// the pre-state (nothing was reserved, counted or written yet).
pub fn conversion_point<const N: usize>(world_level: bool) {
    use wt::*;
    reset();
    let m: Model<N> = Model::any_inv();
    let mut i = 0;
    while i < N {
        sym::assume(m.val[i] == i as u8);
        i += 1;
    }
    let mut world = load::<TokM, N>(&m);
    unsafe {
        WORLD = &mut world as *mut WT as *mut u8;
        PRE = &m as *const Model<N> as *const u8;
        ON_CONVERT = Some(inspect_unchanged::<N>);
        HITS = 0;
    }
    let w = unsafe { &mut *(WORLD as *mut WT) };
    let e = if world_level { w.create::<ArchTok>(Lazy(7)) } else { w.arch_tok.create(Lazy(7)) };
    unsafe {
        ON_CONVERT = None;
        assert!(HITS == 1, "the user conversion did not run exactly once");
    }
    assert!(world.contains(e));
    cover!(m.len == N, "conversion while the archetype is full (create will grow)");
    cover!(m.len < N, "conversion with room left");
    std::mem::forget(world);
}

unsafe fn inspect_unchanged<const N: usize>() {
    HITS += 1;
    let world = &mut *(WORLD as *mut wt::WT);
    let pre = &*(PRE as *const Model<N>);
    let (_v, len, cap, _fh) = wt::TokM::get_raw(&world.arch_tok);
    assert!(len == pre.len && cap == N, "C10: create changed len/capacity BEFORE running the user's Into<Components> conversion (a panic there leaves uninitialised cells counted as live)");
    let now: Model<N> = read::<wt::TokM, N>(world);
    assert!(now.inv(), "C10: storage inconsistent while the user's Into<Components> conversion runs");
    assert_unchanged::<wt::TokM, N>(pre, &now);
}

/// A guard leaked with mem::forget (safe code) leaves a column's RefCell flagged forever. A later
/// destroy holds `&mut self`; it must either complete or refuse with the world untouched — never
/// panic half-way. Kani decides whether a RefCell panic is REACHABLE inside destroy; if it is, the
/// recorded values are replayed natively where the unwinding is caught and the oracle evaluated.
pub fn leaked_guard_then_destroy<const N: usize>(col: u8, kind: u8) {
    use w3::*;
    let m: Model<N> = Model::any_inv();
    assume_no_overflow(&m);
    let k = sym::any_usize();
    sym::assume(k < m.len);
    let mut world = load::<Tri, N>(&m);
    match col {
        0 => std::mem::forget(world.arch_tri.borrow_slice_mut::<P>()),
        1 => std::mem::forget(world.arch_tri.borrow_slice_mut::<Pad>()),
        _ => std::mem::forget(world.arch_tri.borrow_slice::<Pad>()),
    }
    let (key, ver) = m.handle_raw(Tri::ID, k);
    let any = EntityAny::from_raw((key, ver)).ok().unwrap();
    let typed: Entity<ArchTri> = any.try_into().ok().unwrap();
    run_guarded::<Tri, N>(&mut world, &m, k, |w| match kind {
        0 => {
            let _ = w.destroy(any);
        }
        1 => {
            let _ = w.arch_tri.destroy(typed).map(|c| Tri::un(c));
        }
        _ => {
            ecs_iter_destroy!(w, |e: &EntityAny| if e.raw() == (key, ver) { EcsStepDestroy::BreakDestroy } else { EcsStepDestroy::Continue });
        }
    });
    let post: Model<N> = read::<Tri, N>(&mut world);
    assert!(post.inv(), "C10: storage inconsistent after destroy with a leaked guard");
    cover!(post.len + 1 == m.len, "destroy completed despite the leaked guard");
    std::mem::forget(world);
}

harness! { fn c10_conversion_point_arch_2() unwind(10) { conversion_point::<2>(false) } }
harness! { fn c10_conversion_point_world_2() unwind(10) { conversion_point::<2>(true) } }
harness! { fn c10_leaked_guard_destroy_any_3() unwind(5) { leaked_guard_then_destroy::<3>(1, 0) } }
harness! { fn c10_leaked_guard_destroy_typed_2() unwind(4) { leaked_guard_then_destroy::<2>(0, 1) } }
harness! { fn c10_leaked_guard_iter_destroy_2() unwind(4) { leaked_guard_then_destroy::<2>(2, 2) } }
