#!/usr/bin/env python3-vt
"""Prints the DESIGN §10.3 table rows from the committed evidence files (quick tier) and the registry (thorough counts)."""
import json, os, sys
sys.path.insert(0, os.path.join(os.path.dirname(os.path.abspath(__file__)), ".."))
from verifkit import registry, e2
print("| property | quick tasks (Kani + E2) | quick wall | obligations discharged (quick) | thorough tasks (Kani + E2) |")
print("|----------|------------------------|-----------|-------------------------------|---------------------------|")
for pid in sorted(registry.PROPERTIES):
    ev = json.load(open("/verif/evidence/%s.json" % pid))
    ent = registry.PROPERTIES[pid]
    qk = len(registry.jobs_for(pid, "quick")); tk = len(registry.jobs_for(pid, "thorough"))
    qe = len(e2.tasks_for(pid, "quick", 0)) if ent.get("e2") else 0
    te = len(e2.tasks_for(pid, "thorough", 0)) if ent.get("e2") else 0
    print("| %s | %d + %d | %d s | %s | %d + %d |" % (pid, qk, qe, round(ev.get("wall_s", 0)), format(ev["coverage"]["evaluations"], ",").replace(",", " "), tk, te))
