#!/bin/bash
# usage: tools/try_harness.sh [-f features] [-n (debug assertions off)] [-s (stubbing)] harness...   (development aid: one cargo kani per harness, logs under /var/tmp/hp)
feat=""; nodbg=""; stub=""
while getopts "f:ns" o; do case $o in f) feat="--features $OPTARG";; n) nodbg=1;; s) stub="-Z stubbing";; esac; done; shift $((OPTIND-1))
mkdir -p /var/tmp/hp; cd /verif/kani_gecs
for h in "$@"; do
  t=$(echo $h | tr ':' '_')
  ( s=$(date +%s); ulimit -v 24000000; if [ -n "$nodbg" ]; then export CARGO_PROFILE_DEV_DEBUG_ASSERTIONS=false; fi
    timeout 2400 env CARGO_NET_OFFLINE=true RUSTFLAGS="--cfg gecs_verif" cargo kani --harness $h --exact --target-dir /var/tmp/hp/t_$t $feat $stub > /var/tmp/hp/$t.log 2>&1
    echo "$h exit=$? $(( $(date +%s) - s ))s $(grep -E '^VERIFICATION' /var/tmp/hp/$t.log) covers: $(grep -cE 'Status: SATISFIED' /var/tmp/hp/$t.log) sat, $(grep -E 'cover properties satisfied' /var/tmp/hp/$t.log)"; rm -rf /var/tmp/hp/t_$t ) &
done; wait
