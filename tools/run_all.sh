#!/bin/bash
# usage: tools/run_all.sh quick|thorough [parallel] [workers] — runs every claimed check, logs under /var/tmp/verif_runall
tier=${1:-quick}; par=${2:-2}; workers=${3:-8}
cd "$(dirname "$0")/.."
out=/var/tmp/verif_runall; mkdir -p $out
props=$(python3-vt -c "import sys; sys.path.insert(0,'.'); from verifkit import registry; print(' '.join(sorted(registry.PROPERTIES)))")
printf "%s\n" $props | xargs -P $par -I{} bash -c "start=\$(date +%s); ./check {} --tier $tier --workers $workers > $out/{}.$tier.log 2>&1; echo \"{} exit=\$? \$(( \$(date +%s) - start ))s \$(tail -1 $out/{}.$tier.log)\""
