#!/bin/bash
# usage: tools/ingest7.sh <P> <A|B> <newletter> "<summary>" "<needs>" [cargo extra args]   (batch 8: worktree /tmp/mut8_<P>)
P=$1; L=$2; NL=$3; summary=$4; needs=$5; shift 5
cd /verif && ./tools/ingest_seeded.sh /tmp/mut8_$P $L $P-$NL $P "$summary" "$needs" "$@"
