#!/usr/bin/env python3-vt
"""usage: tools/eval_seeded.py <seeded dir> [--props C01,C09] [--tier quick] [--workers N]
Evaluates one seeded change in ISOLATION (so several can be evaluated at once and /repo is never touched):
a scratch git worktree of /repo with patch.diff applied, a scratch copy of the harness crate pointing at it,
the named checks (default: the property the change breaks) run against it WITHOUT rewriting evidence.
Records which checks raised a VIOLATION in <seeded dir>/results.json. Removes the scratch copies."""
import json, os, shutil, subprocess, sys, time
d = os.path.abspath(sys.argv[1])
args = sys.argv[2:]
meta = json.load(open(os.path.join(d, "meta.json")))
props = [meta["property"]]
tier = "quick"
workers = "5"
for i, a in enumerate(args):
    if a == "--props": props = args[i + 1].split(",")
    if a == "--tier": tier = args[i + 1]
    if a == "--workers": workers = args[i + 1]
ROOT = os.environ.get("VERIF_SNAPSHOT") or ("/var/tmp/verif_blind" if os.path.isdir("/var/tmp/verif_blind") else "/verif")   # a git worktree of a committed /verif for blind evaluations
tag = "%s_%d" % (meta["id"].replace("-", "_"), os.getpid())
wt = "/tmp/eval_repo_" + tag
crate = "/var/tmp/eval_crate_" + tag
subprocess.run(["git", "-C", "/repo", "worktree", "add", "-q", wt, "HEAD"], check=True)
results = {}
try:
    r = subprocess.run(["git", "-C", wt, "apply", os.path.join(d, "patch.diff")], capture_output=True, text=True)
    if r.returncode != 0:
        print("patch does not apply:", r.stderr); sys.exit(2)
    shutil.copytree(ROOT + "/kani_gecs", crate, ignore=shutil.ignore_patterns("target"))
    ct = open(os.path.join(crate, "Cargo.toml")).read().replace('path = "/repo"', 'path = "%s"' % wt)
    open(os.path.join(crate, "Cargo.toml"), "w").write(ct)
    for p in props:
        t0 = time.time()
        env = dict(os.environ); env["VERIF_WORKERS"] = workers; env["GECS_REPO"] = wt; env["VERIF_KANI_CRATE"] = crate
        r = subprocess.run([ROOT + "/check", p, "--tier", tier, "--no-evidence"], capture_output=True, text=True, cwd=ROOT, env=env)
        lines = r.stdout.splitlines()
        viol = [l for l in lines if l.startswith("VIOLATION")]
        detail = [l.strip() for l in lines if l.startswith("  harness=")]
        inc = [l for l in lines if l.startswith("INCONCLUSIVE")]
        results[p] = {"exit": r.returncode, "violations": len(viol), "first": detail[:3], "inconclusive": len(inc), "inconclusive_first": inc[:2], "wall_s": round(time.time() - t0), "tier": tier}
        print(meta["id"], p, "exit", r.returncode, "violations", len(viol), "inconclusive", len(inc), "%ds" % (time.time() - t0))
        for x in detail[:2]:
            print("   ", x[:220])
        for x in inc[:1]:
            print("   ", x[:220])
finally:
    subprocess.run(["git", "-C", "/repo", "worktree", "remove", "--force", wt])
    shutil.rmtree(crate, ignore_errors=True)
path = os.path.join(d, "results.json")
old = json.load(open(path)) if os.path.exists(path) else {}
old.update(results)
json.dump(old, open(path, "w"), indent=1)
