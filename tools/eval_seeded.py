#!/usr/bin/env python3-vt
"""usage: tools/eval_seeded.py <seeded dir> [--props C01,C09] [--tier quick]
Applies /verif/seeded/<id>/patch.diff to /repo, runs the named checks (default: the property the change
breaks) WITHOUT rewriting evidence, restores /repo, and records which checks raised a VIOLATION."""
import json, os, subprocess, sys, time
d = os.path.abspath(sys.argv[1])
args = sys.argv[2:]
meta = json.load(open(os.path.join(d, "meta.json")))
props = [meta["property"]]
tier = "quick"
workers = "8"
for i, a in enumerate(args):
    if a == "--props": props = args[i + 1].split(",")
    if a == "--tier": tier = args[i + 1]
    if a == "--workers": workers = args[i + 1]
if subprocess.run(["git", "-C", "/repo", "status", "--porcelain"], capture_output=True, text=True).stdout.strip():
    print("/repo is not clean"); sys.exit(2)
r = subprocess.run(["git", "-C", "/repo", "apply", os.path.join(d, "patch.diff")], capture_output=True, text=True)
if r.returncode != 0:
    print("patch does not apply:", r.stderr); sys.exit(2)
results = {}
try:
    for p in props:
        t0 = time.time()
        env = dict(os.environ); env["VERIF_WORKERS"] = workers
        r = subprocess.run(["/verif/check", p, "--tier", tier, "--no-evidence"], capture_output=True, text=True, cwd="/verif", env=env)
        lines = r.stdout.splitlines()
        viol = [l for l in lines if l.startswith("VIOLATION")]
        detail = [l.strip() for l in lines if l.startswith("  harness=")]
        inc = [l for l in lines if l.startswith("INCONCLUSIVE")]
        results[p] = {"exit": r.returncode, "violations": len(viol), "first": detail[:3], "inconclusive": len(inc), "inconclusive_first": inc[:2], "wall_s": round(time.time() - t0), "tier": tier}
        print(p, "exit", r.returncode, "violations", len(viol), "inconclusive", len(inc), "%ds" % (time.time() - t0))
        for x in detail[:2]:
            print("   ", x[:220])
finally:
    subprocess.run(["git", "-C", "/repo", "checkout", "--", "."])
    subprocess.run(["git", "-C", "/repo", "clean", "-fdq", "tests"]) if False else None
path = os.path.join(d, "results.json")
old = json.load(open(path)) if os.path.exists(path) else {}
old.update(results)
json.dump(old, open(path, "w"), indent=1)
