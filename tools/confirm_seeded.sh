#!/bin/bash
# usage: tools/confirm_seeded.sh <patch> <demo_test.rs> [cargo test extra args...]
# Confirms in a fresh scratch worktree: patch applies; crate builds and the repository's own suite passes with it;
# the demonstration FAILS with the patch and PASSES without. Prints CONFIRMED or a reason. Removes the worktree.
patch=$(readlink -f "$1"); demo=$(readlink -f "$2"); shift 2; extra="$@"
wt=/tmp/confirm_$$_$(basename "$patch" .patch)
git -C /repo worktree add -q "$wt" HEAD || exit 2
cleanup() { git -C /repo worktree remove --force "$wt" >/dev/null 2>&1; }
trap cleanup EXIT
cd "$wt"
name=$(basename "$demo" .rs)
cp "$demo" tests/$name.rs
export CARGO_NET_OFFLINE=true
# without the patch: demo passes
if ! cargo test --offline $extra --test $name >/tmp/confirm_$$.a 2>&1; then echo "REJECT: demo fails WITHOUT the change"; tail -5 /tmp/confirm_$$.a; exit 1; fi
git apply "$patch" || { echo "REJECT: patch does not apply"; exit 1; }
# with the patch: suite (without demo) passes
mv tests/$name.rs /tmp/confirm_$$.demo.rs
if ! cargo test --workspace --no-fail-fast --offline >/tmp/confirm_$$.b 2>&1; then echo "REJECT: repository suite fails WITH the change"; grep -E "^test .*FAILED|error" /tmp/confirm_$$.b | head -5; exit 1; fi
passed=$(grep -E "^test result" /tmp/confirm_$$.b | awk '{p+=$4} END {print p}')
mv /tmp/confirm_$$.demo.rs tests/$name.rs
if cargo test --offline $extra --test $name >/tmp/confirm_$$.c 2>&1; then echo "REJECT: demo passes WITH the change"; exit 1; fi
echo "CONFIRMED: suite passes with change ($passed tests), demo fails with change, passes without [$extra]"
grep -E "panicked|assert" /tmp/confirm_$$.c | head -3
rm -f /tmp/confirm_$$.*
