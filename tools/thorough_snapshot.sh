#!/bin/bash
# Run from a `vp run --with-repo` snapshot: points the harness crate and the runner at the /repo snapshot so that
# edits to /repo (e.g. seeded patches being evaluated) do not disturb a long run. usage: thorough_snapshot.sh [par] [workers] [tier] [props...]
par=${1:-1}; workers=${2:-6}; tier=${3:-thorough}; shift 3
cd "$(dirname "$0")/.."
if [ -n "$VP_RUN_REPO" ]; then
  sed -i "s#path = \"/repo\"#path = \"$VP_RUN_REPO\"#" kani_gecs/Cargo.toml
  export GECS_REPO=$VP_RUN_REPO
fi
out=./runall_logs; mkdir -p $out
props="$@"
[ -z "$props" ] && props=$(python3-vt -c "import sys; sys.path.insert(0,'.'); from verifkit import registry; print(' '.join(sorted(registry.PROPERTIES)))")
printf "%s\n" $props | xargs -P $par -I{} bash -c "start=\$(date +%s); ./check {} --tier $tier --workers $workers > $out/{}.$tier.log 2>&1; echo \"{} exit=\$? \$(( \$(date +%s) - start ))s \$(tail -1 $out/{}.$tier.log)\""
