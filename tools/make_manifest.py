#!/usr/bin/env python3-vt
"""Regenerates /verif/MANIFEST.json from the registry (claimed properties) and validates it."""
import json, os, sys
sys.path.insert(0, os.path.dirname(os.path.dirname(os.path.abspath(__file__))))
from verifkit import registry

HOOK_COMMITS = ["664f9bf", "597b63d"]

TEXT = {
 "C01": ("Inductive step per operation (create, create_within_capacity, growth, destroy by all four key kinds at archetype and world level) from an ARBITRARY storage state satisfying the representation invariant, with an arbitrary 64-bit handle probed through every lookup path; decided by CBMC/SAT for all values within capacity <= 4. Base case + steps give all histories by induction (meta-argument in DESIGN §3).", "§3, §4 C01"),
 "C02": ("Arbitrary Inv state x arbitrary live entity: all 12 read paths agree with the ghost model; a write through any of 10 write paths is seen by every read path and changes nothing else; structural steps on 1/2/3/16(/17)-column shapes keep every other entity's columns.", "§4 C02"),
 "C03": ("All 2^64 (key, generation) values and all (index < 2^24, version) direct values against arbitrary Inv states, every safe entry point, dev profile with debug assertions on and off: no memory-safety class check of CBMC may fail on the real code, only documented clean panics; accepted => bit-identical live handle. Plus full-width MIR kernels (index extraction can never yield >= 2^24).", "§4 C03, §5 F3"),
 "C04": ("Token components with ghost drop/clone counters: one step (typed/dynamic/direct destroy, create, failed create_within_capacity, growth, clone, ecs_iter_destroy!) + final drop of the world(s) from an arbitrary Inv state; every token dropped exactly once, returned tuples not dropped, clones own fresh values.", "§4 C04"),
 "C05": ("E2: the MIR of bind_query_params/bind_one_of/contains_component interpreted symbolically (names, membership matrix, cfg flags symbolic; parameter skeletons enumerated) against the set-theoretic specification, discharged by z3 x2 + cvc5; interpreter validated against the REAL macros on witnesses. E1 corpus: 9 real queries over a real 4-archetype world decided for all populations.", "§4 C05"),
 "C06": ("Arbitrary Inv states of two archetypes, closure bookkeeping per entity, Break at a symbolic global step: every live matching entity exactly once with its own handle and columns, nothing else; ecs_iter!, ecs_iter_borrow!, Archetype::iter/iter_mut, entities(), slice accessors.", "§4 C06"),
 "C07": ("Arbitrary Inv states x arbitrary decision table (all 4^n functions in one SAT query): visits once until the first Break, destroys exactly the flagged ones, survivors keep handle and columns, Inv preserved, minted direct handles designate the visited entity.", "§4 C07, §5 F2"),
 "C08": ("Ghost-handle step obligations (a created handle differs from every issued-compatible handle; issued-compatibility is monotone), overflow boundary from symbolic generations == u32::MAX (clean panic, or wrap under wrapping_version), cross-archetype distinctness; full-width MIR kernels: next() and key packing injectivity for a symbolic archetype id.", "§3 H1, §4 C08"),
 "C09": ("to_direct with all key kinds from arbitrary states then one arbitrary structural step (removal / creation / remove-last-then-recreate); arbitrary direct handle probed after steps through every path; handles minted by all five query macros.", "§3 H2, §4 C09, §5 F2/F4"),
 "C10": ("State inspected AT each panic point with a gecs frame on the stack (Kani stubs for the overflow primitives; Clone/Drop callbacks; capacity overflow): Inv and every entity whole or (target) absent; native replay re-evaluates the oracle after real unwinding.", "§4 C10, §5 F1"),
 "C11": ("Access matrix: for each concrete outer access (17 cells) an ARBITRARY non-conflicting inner access (33 cells, solver-merged) succeeds with right values; each of 40 conflicting cells panics in core::cell and nothing after it is reachable; after the outer access ends every formerly conflicting access succeeds.", "§4 C11"),
 "C12": ("Bookkeeping steps (len/is_empty/capacity exact, create_within_capacity Ok iff len < capacity), refill to exactly capacity from any free-list pattern, with_capacity(n) permits n creations, the 2^24 limit on a hook-built state; MIR kernel: growth arithmetic for every usize capacity.", "§4 C12"),
 "C13": ("clone of an arbitrary Inv state equals it over the WHOLE capacity; the same entity and direct handles resolve in the clone; one symbolic operation (create/destroy/recycle/refill) on either side leaves the other unchanged.", "§4 C13"),
 "C14": ("MIR kernels with a SYMBOLIC ARCHETYPE_ID (all 256 ids, all 2^64 handles): TryFrom/from_any/from_any_unchecked/from_raw/raw/archetype_id, Hash input injective; E1: the generated Select* tables and reference casts of a real world over symbolic handles.", "§4 C14"),
 "C15": ("E2: the MIR of DataWorld::new + advance_attribute_id + evaluate_cfgs interpreted for every explicit id (symbolic Option<u8>) and cfg flag against the discriminant rule; witnesses validated through the REAL ecs_world! macro (constants / compile errors). E1: constants of a real 6-archetype expansion agree with each other.", "§4 C15"),
 "C16": ("E2 metamorphic: declaration / query with cfg'd items under EVERY truth assignment has the outcome of the erased declaration / query (the real DataWorld::new and bind_query_params interpreted twice). E1 corpus with real #[cfg(any())]/#[cfg(all())] items. The generated __cfg_ecs_* macro chain (rustc evaluates predicates) is outside.", "§4 C16"),
 "C17": ("Feature events: per-step log deltas from arbitrary Inv states with earlier events (create, both create paths, all four destroy key kinds at both levels, ecs_iter_destroy!, reads), clear_events at both levels, clone carries pending events, world-level iterators over 3 archetypes with symbolic log lengths and exact size_hint.", "§4 C17"),
 "C19": ("A fixed core of the harnesses above re-decided under all 8 feature sets x debug-assertions {on, off} (quick: default + all features, both profiles), Storage17 under 32_components, wraparound instead of panic under wrapping_version; kernels re-decided on the MIR dumped per configuration.", "§4 C19"),
}

# round 2 additions (DESIGN §12), appended to the level text
ADD = {
 "C01": " Round 2: a bounded public-API history (3 symbolic operations, every issued handle probed after every step, final state satisfies Inv) and the destroy step at an arbitrary capacity field in N..=2^24.",
 "C02": " Round 2: reads in a clone, an over-aligned (align 32) column through growth, destroy with debug assertions off.",
 "C04": " Round 2: clone_from onto an arbitrary non-fresh target (old values dropped once, source values cloned once), growth of an over-aligned column.",
 "C05": " Round 2: is_cfg_enabled for stacked #[cfg] attributes (MIR), several anonymous OneOf filters in one query, twin programs with build-dependent predicates.",
 "C06": " Round 2: iteration after a destroy with debug assertions off and after a destroy that panicked at the counter boundary.",
 "C07": " Round 2: the pass run on a clone of an arbitrary state; a public-API harness with no assumption on the visiting order.",
 "C08": " Round 2: bounded public-API history (no handle issued twice), destroy at an arbitrary capacity field (no generation forgotten whatever the capacity), the overflow panic with debug assertions off.",
 "C09": " Round 2: direct handles in a clone / after clone_from.",
 "C10": " Round 2: clone_from (target inspected at every Clone::clone call) and a component's Drop running inside World::destroy / ecs_iter_destroy! as panic points.",
 "C11": " Round 2: ecs_find_borrow! keyed by direct handles as outer and inner access.",
 "C12": " Round 2: capacity independence — destroy and create_within_capacity with the capacity FIELD symbolic in N..=2^24 over a real allocation of N cells; a clone can be refilled to exactly capacity; bounded public-API history.",
 "C13": " Round 2: clone_from onto an arbitrary target state of the same capacity (world and archetype level).",
 "C14": " Round 2: the conversions kernel also under wrapping_version.",
 "C15": " Round 2: two stacked cfg attributes per item (MIR), twin declaration with stacked attributes / disabled items carrying explicit ids.",
 "C16": " Round 2: stacked attributes on declaration items and query parameters (MIR of evaluate_cfgs and is_cfg_enabled), twin programs with build-dependent predicates before constant ones.",
 "C17": " Round 2: provided Iterator methods (nth, skip, count, last, for_each) of the world-level iterators; a world declaring all 256 archetypes (u8 cursor boundary).",
 "C19": " Round 2: the 256-archetype world under events (overflow checks at the u8 cursor boundary).",
}

NOTE = {
 "C05": "Data level: what rustc does with the generated tokens (that an empty match set / ambiguity surfaces as a compile error, closure syntax parsing) is checked only on validation witnesses; container semantics (Vec/HashMap/String) are modelled — list in evidence.",
 "C15": "Data level + real-macro validation witnesses; that Err becomes a compile error is observed on witnesses, not proven for all declarations.",
 "C16": "Data level only for the universal claim; the cfg macro chain and rustc's predicate evaluation are outside the technique (see DESIGN §4 C16).",
 "C10": "Kani has no unwinding: the state is inspected at the panic point; stubs listed in evidence. Panics in user closures between operations reduce to Break-at-k (C06/C07).",
 "C11": "Release of RefCell guards BY UNWINDING is std's guarantee (Kani cannot unwind) — trusted.",
}

TECH_EXTRA = {
 "C04": " (here: only the auxiliary MIR unwind-edge fact on Storage::clone, no SMT query, confirmed by a native run with a really panicking Clone; the deciding method for C04 is Kani/CBMC)",
 "C10": "; auxiliary: MIR unwind-edge fact on Storage::clone and native catch_unwind oracles for behaviour AFTER unwinding (Kani cannot unwind)",
 "C05": "; auxiliary real-program corpora through the real macros (E1 corpus under Kani, negative corpus of programs that must not compile)",
 "C16": "; auxiliary twin programs (decorated vs erased) through the real cfg macro chain",
 "C15": "; auxiliary twin declarations (decorated vs erased) through the real macros",
 "C17": "; auxiliary: one real program over a world declaring all 256 archetypes (the u8 cursor boundary of the world-level event iterator is beyond the solver-based harnesses' 3 archetypes), dev + release",
 "C19": "; auxiliary: the same 256-archetype program in the dev profile (overflow checks on) and in release",
 "C12": "; admission-kernel counterexamples and boundary witnesses replayed natively through the public API",
}


def main():
    props = [json.loads(l) for l in open('/verif/properties.jsonl')]
    claimed = sorted(registry.PROPERTIES)
    e2 = [p for p in claimed if registry.PROPERTIES[p].get("e2")]
    m = {
     "version": 1,
     "setup_cmd": "./setup.sh",
     "hooks": {
      "guard": "--cfg gecs_verif (rustc cfg flag, passed through RUSTFLAGS; declared to cargo's check-cfg lint in /repo/Cargo.toml)",
      "enable": "RUSTFLAGS=\"--cfg gecs_verif\" cargo kani ... (harness crate /verif/kani_gecs depends on /repo by path; the MIR engine needs no hooks)",
      "baseline_off_cmd": "cd /repo && cargo test --workspace --no-fail-fast --offline",
      "source_commits": HOOK_COMMITS,
      "add_only": True,
     },
     "engines": [
      {"name": "E1-kani", "path": "/verif/kani_gecs", "serves_properties": [p for p in claimed if registry.PROPERTIES[p]["jobs"]()],
       "kind_free_text": "Kani 0.68 / CBMC 6.11 (cadical) proof harnesses over the real crate and real macro expansions; symbolic pre-states through cfg(gecs_verif) hooks; inductive steps"},
      {"name": "E2-mirsym", "path": "/verif/verifkit/mirsym", "serves_properties": e2,
       "kind_free_text": "own symbolic interpreter of rustc's MIR text (regenerated from /repo every run) emitting SMT-LIB2, decided by z3 5.1, z3 4.8.12 and cvc5 1.0 (all must agree)"},
      {"name": "R-native", "path": "/verif/kani_gecs/src/bin/replay.rs, /verif/verifkit/mirsym/progs.py", "serves_properties": claimed,
       "kind_free_text": "native replay: Kani concrete-playback values fed to the same harness source built natively (dev + release, Miri for UB classes); E2 models turned into real programs using the real macros"},
     ],
     "checks": [],
     "not_applicable": [],
     "notes": "See DESIGN.md. ./check exit codes: 0 held (KNOWN-FINDING lines allowed), 1 reproducible violation (VIOLATION line), 2 inconclusive/infrastructure. Known findings: /verif/known_findings.json.",
    }
    for pid in claimed:
        text, ref = TEXT[pid]
        text = text + ADD.get(pid, "")
        ent = registry.PROPERTIES[pid]
        engines = []
        if ent["jobs"]():
            engines.append("E1-kani")
        if ent.get("e2"):
            engines.append("E2-mirsym")
        tech = {"E1-kani": "Kani/CBMC bounded model checking (SAT) of the real code from symbolic pre-states",
                "E2-mirsym": "symbolic interpretation of rustc MIR -> SMT-LIB, z3 + cvc5"}
        m["checks"].append({
         "property_id": pid,
         "quick_cmd": "./check %s --tier quick" % pid,
         "thorough_cmd": "./check %s --tier thorough" % pid,
         "evidence_file": "/verif/evidence/%s.json" % pid,
         "replay_cmd_template": "./check --replay {path}",
         "engine": "+".join(engines),
         "level_claimed": {"category": "model_checking", "text": text, "design_ref": "DESIGN.md " + ref},
         "level_note": "Bounded: nothing is claimed outside the bounds listed in the evidence file. Trusted: rustc, Kani/CBMC/cadical, z3/cvc5, the MIR printer, the cfg(gecs_verif) hooks, the ghost Model/Inv. " + NOTE.get(pid, ""),
         "technique": "; ".join(tech[e] for e in engines) + TECH_EXTRA.get(pid, ""),
        })
    for p in props:
        if p["id"] not in claimed:
            if p["id"] == "C18":
                reason = "facts about programs that rustc must REJECT (borrow checker, auto traits, forbid(unsafe_code)): the deciding engine is the type checker over a corpus of programs; there is no input, state or schedule to make symbolic and nothing for a solver to decide (DESIGN §8)"
            else:
                reason = "not claimed"
            m["not_applicable"].append({"property_id": p["id"], "reason": reason})
    json.dump(m, open('/verif/MANIFEST.json', 'w'), indent=1)
    import jsonschema
    jsonschema.validate(m, json.load(open('/root/.vp/MANIFEST.schema.json')))
    print("MANIFEST.json: %d checks, %d not applicable" % (len(m["checks"]), len(m["not_applicable"])))

main()
