#!/usr/bin/env python3-vt
"""Regenerates /verif/seeded/RESULTS.md from seeded/*/meta.json and results.json."""
import json, os, glob
rows = []
for d in sorted(glob.glob('/verif/seeded/*/')):
    mp = os.path.join(d, 'meta.json')
    if not os.path.exists(mp):
        continue
    m = json.load(open(mp))
    r = json.load(open(os.path.join(d, 'results.json'))) if os.path.exists(os.path.join(d, 'results.json')) else {}
    caught = [p for p, v in r.items() if v.get('violations', 0) > 0]
    missed = [p for p, v in r.items() if v.get('violations', 0) == 0 and v.get('exit') == 0]
    inc = [p for p, v in r.items() if v.get('violations', 0) == 0 and v.get('exit') == 2]
    first = ''
    for p in caught:
        if r[p].get('first'):
            first = r[p]['first'][0].replace('harness=', '')[:150]
            break
    blind = ''
    bp = os.path.join(d, 'results_blind.json')
    if os.path.exists(bp):
        b = json.load(open(bp)).get(m['property'], {})
        blind = 'caught' if b.get('violations', 0) > 0 else ('inconclusive' if b.get('exit') == 2 else ('missed' if b.get('exit') == 0 else ''))
    rows.append((os.path.basename(d.rstrip('/')), m['property'], m['summary'], m['needs'], ', '.join(caught) or '-', ', '.join(missed) or '-', ', '.join(inc) or '-', first, (('blind: ' + blind + '. ') if blind and not m.get('strengthened', '').startswith('blind') else '') + m.get('strengthened', '')))
out = ['# Seeded changes and the checks that catch them', '',
       'Each change was produced by an independent sub-agent (property text + scratch worktree only), confirmed by us with `tools/confirm_seeded.sh`',
       '(suite passes with the change; demonstration fails with it and passes without), and evaluated with `tools/eval_seeded.py` (quick tier unless noted).', '',
       '| id | breaks | change | needs to manifest | caught by (VIOLATION, natively replayed) | ran without alarm | inconclusive | first failing harness / oracle | note |',
       '|----|--------|--------|-------------------|------------------------------------------|-------------------|--------------|-------------------------------|------|']
for row in rows:
    out.append('| ' + ' | '.join(str(x).replace('|', '/') for x in row) + ' |')
open('/verif/seeded/RESULTS.md', 'w').write('\n'.join(out) + '\n')
print(len(rows), 'seeded changes')
