#!/bin/bash
# usage: tools/ingest_seeded.sh <worktree> <A|B> <id> <property> <summary> <needs> [cargo test extra args]
wt=$1; L=$2; id=$3; prop=$4; summary=$5; needs=$6; shift 6; extra="$@"
cd /verif
out=$(./tools/confirm_seeded.sh $wt/mutant_$L.patch $wt/tests/demo_$L.rs $extra 2>&1 | sed -n '/^CONFIRMED\|^REJECT/,$p')
echo "$id: $out" | head -3
case "$out" in CONFIRMED*) ;; *) exit 1;; esac
mkdir -p seeded/$id
cp $wt/mutant_$L.patch seeded/$id/patch.diff
cp $wt/tests/demo_$L.rs seeded/$id/demo.rs
python3 - "$id" "$prop" "$summary" "$needs" "$extra" "$out" <<'PY'
import json, sys
id_, prop, summary, needs, extra, out = sys.argv[1:7]
json.dump({"id": id_, "property": prop, "summary": summary, "needs": needs,
           "origin": "independent sub-agent (saw only the property text and its own scratch worktree of /repo @ 597b63d)",
           "demo": "demo.rs (integration test using only the public API; copy to tests/ and run `cargo test --offline %s --test demo`)" % extra,
           "confirmed_by": "tools/confirm_seeded.sh in a fresh scratch worktree: " + out.splitlines()[0],
           "base_commit": "597b63d"}, open("/verif/seeded/%s/meta.json" % id_, "w"), indent=1)
PY
